"""Shared timeline harness (C07-C11): the real TimelineSVG / TimelineTex constructors and export() with symbolic
times and widths.  Numbers printed into a document become hole tokens '@Hk@' (vlib.engine.format_hole) whose
term and conversion are recorded; documents are then parsed (XML / TikZ line grammar) and compared hole by hole."""
import datetime as _dt
import re
from fractions import Fraction

from vlib import engine as E
from vlib import symdt
from vlib.engine import And, Or, Not, Implies
from vlib.symdt import SymDT

from . import forceh, props

DIRS = ["up", "down", "left", "right"]
TEXTS = [None, "plain", "a<b & \"c\" 'd'>", "é – 中", "5 \u2126 at 3 \u212a \ufa19"]
D0, D1 = 3.0, 88.0  # deliberately not 'nice': an explicit domain must be used as given
TD0, TD1 = _dt.datetime(2021, 1, 25, 6, 0), _dt.datetime(2021, 3, 5, 18, 30)
HOLE = re.compile(r"@H\d+@")


def mk_cfg(name, **kw):
    d = dict(name=name, n=2, mode="svg", scale="linear-explicit", direction="right", optvar="partial", labella=None, ticks=True, texts=[0, 0, 0], layergap=60, weight=5, vpsc="real")
    d.update(kw)
    return d


def data_and_options(cfg, val, sym):
    """returns (data dicts, options or None, info dict with the symbolic/concrete inputs)"""
    from labella.scale import LinearScale, TimeScale

    n = cfg["n"]
    sc = cfg["scale"]
    data = []
    times = []
    widths = []
    for i in range(n):
        w = float(cfg["fixedw"][i]) if cfg.get("fixedw") else val("w%d" % i, 1, 120)
        widths.append(w)
        if sc.startswith("linear"):
            if sc == "linear-explicit":
                t = float(cfg["pinned"][i]) if cfg.get("pinned") and cfg["pinned"][i] is not None else val("t%d" % i, D0, D1)
            else:
                t = cfg["ctimes"][i]
        elif sc == "time-explicit":
            if sym:
                t = SymDT.fresh(E.cur(), "t%d" % i, 2021, 2021, 1000)
                E.cur().assume(And(t.us >= SymDT.lift(TD0).us, t.us <= SymDT.lift(TD1).us))
            else:
                t = _dt.datetime(1970, 1, 1) + _dt.timedelta(days=int(val("t%d_day" % i, 0, 0)), hours=int(val("t%d_h" % i, 0, 0)), minutes=int(val("t%d_mi" % i, 0, 0)), seconds=int(val("t%d_s" % i, 0, 0)), milliseconds=int(val("t%d_sub" % i, 0, 0)))
        else:  # time-derived: concrete datetimes / dates / times of day
            t = cfg["ctimes"][i]
            if isinstance(t, str):
                t = parse_ctime(t)
        times.append(t)
        d = {"time": t, "width": w}
        tx = TEXTS[cfg["texts"][i % len(cfg["texts"])]]
        if tx is not None:
            d["text"] = tx
        data.append(d)
    opts = {}
    ov = cfg["optvar"]
    if sc.startswith("linear"):
        opts["scale"] = LinearScale()
    if sc == "linear-explicit":
        opts["domain"] = [D0, D1]
    if sc == "time-explicit":
        opts["domain"] = [TD0, TD1]
    if ov == "partial":
        opts.update(direction=cfg["direction"], layerGap=cfg["layergap"], showTicks=cfg["ticks"])
        if cfg.get("labella") is not None:
            opts["labella"] = dict(cfg["labella"])
        if cfg.get("colors"):
            opts.update(COLOR_SETS[cfg["colors"]]())
        if cfg.get("border"):
            opts["showBorder"] = True
        if cfg.get("padding"):
            opts["labelPadding"] = dict(cfg["padding"])
        if cfg.get("size"):
            W, H, m = cfg["size"]
            opts.update(initialWidth=W, initialHeight=H, margin=dict(m))
    elif ov == "empty":
        pass
    elif ov == "none":
        opts = None if not opts else opts
    return data, opts, dict(times=times, widths=widths)


COLOR_SETS = {
    # 3-digit and 6-digit hex, upper/lower case, with/without '#', lists and functions
    "set1": lambda: dict(dotColor="#f80", linkColor=["#0af", "1F77B4"], labelBgColor=lambda d: "#2CA02C" if d.get("text") else "d62", labelTextColor="#fff", borderColor=["#9467bd", "#8C5"]),
    "set2": lambda: dict(dotColor=["abc", "#FED", "#012"], linkColor="#e377c2", labelBgColor="#17BECF", labelTextColor=lambda d: "#000", borderColor="#7f7"),
}


_CONC_SHARED = {}


def parse_ctime(s):
    if s.startswith("date:"):
        return _dt.date.fromisoformat(s[5:])
    if s.startswith("time:"):
        return _dt.time.fromisoformat(s[5:])
    return _dt.datetime.fromisoformat(s)


def build(cfg, val, sym, mode=None):
    from labella.timeline import TimelineSVG, TimelineTex

    data, opts, info = data_and_options(cfg, val, sym)
    mode = mode or cfg["mode"]
    if cfg.get("share_opts") and E.ENGINE is not None:
        # the caller hands the SAME options dict object (which contains no scale) to several timelines
        pool = E.ENGINE.pm.setdefault("shared_opts", {})
        opts = pool.setdefault(cfg["share_opts"], opts)
    elif cfg.get("share_opts"):
        opts = _CONC_SHARED.setdefault(cfg["share_opts"], opts)
    cls = TimelineSVG if mode == "svg" else TimelineTex
    tl = cls(data, opts) if opts is not None else cls(data)
    return tl, data, opts, info


def export(tl, mode):
    out = tl.export()
    if isinstance(out, bytes):
        out = out.decode("utf-8")
    return out


def sym_val(e):
    def val(name, lo, hi):
        memo = e.pm.setdefault("inputs_by_name", {})
        if name not in memo:
            memo[name] = e.real(name, lo, hi)
        return memo[name]

    return val


def conc_val(inputs):
    def val(name, lo, hi):
        return float(inputs.get(name, lo))

    return val


def with_vpsc(cfg):
    forceh.use_contract(cfg.get("vpsc") == "contract")


def norm_doc(e, text):
    """replace every hole token by a canonical rendering of (normal form of the term, conversion)"""
    def rep(m):
        h = e.holes.get(m.group(0))
        if h is None:
            return m.group(0)
        x, spec = h
        l = E.lin_of(x) if isinstance(x, E.SymNum) else None
        return "<%s|%s>" % (l.key() if l is not None else repr(x), spec)

    text = HOLE.sub(rep, text)
    sh = e.pm.get("strf_holes", {})
    if sh:
        def rep2(m):
            h = sh.get(m.group(0))
            if h is None:
                return m.group(0)
            return "<T%s|%s>" % (E.lin_of(h[0].us).key(), h[1])

        text = re.sub(r"@T\d+@", rep2, text)
    return text


# ------------------------------------------------------------------------------------ C11
def c11_configs(tier):
    out = []
    k = 0
    for mode in ("svg", "tex"):
        for sc in ("linear-explicit", "time-explicit"):
            for n in (1, 2):
                for ov in ("partial", "empty", "none"):
                    if sc == "linear-explicit" and ov == "none":
                        pass  # options=None with a LinearScale is impossible (the scale itself is an option): becomes {scale, domain}
                    d = DIRS[k % 4]
                    k += 1
                    out.append(mk_cfg("c11-%s-%s-n%d-%s-%s" % (mode, sc, n, ov, d), mode=mode, scale=sc, n=n, optvar=ov, direction=d, texts=[k % 4, (k + 1) % 4]))
    # derived domains on concrete data: single datum, equal times, unsorted, month ends, leap day, ms spans, centuries; date / time / datetime
    T = [
        ["2021-01-31T10:00:00"], ["2020-02-29T12:00:00", "2020-02-29T12:00:00"], ["2021-03-01T00:00:00", "2021-01-29T23:59:59.999"],
        ["1999-12-31T23:59:59.990", "2000-01-01T00:00:00.004"], ["1905-05-05T05:05:05", "2150-12-31T00:00:00"], ["date:2021-01-30", "date:2021-03-31"],
        ["time:06:30:00", "time:18:45:10.5"], ["2021-06-15T00:00:00.001", "2021-06-15T00:00:00.009"], ["date:2020-02-29"], ["2021-10-31T01:30:00", "2021-11-30T02:30:00", "2021-09-30T00:00:00"],
        ["2021-06-15T00:00:00.001", "2021-06-15T00:00:00.004"], ["1969-12-31T23:59:59.999", "1970-01-01T00:00:00.001"], ["2021-12-31T23:00:00", "2022-01-01T01:00:00"],
        ["2020-10-15T00:00:00", "2021-03-31T09:00:00"], ["2019-06-01T00:00:00", "2021-01-30T12:00:00"], ["2004-05-05T00:00:00", "2024-02-29T00:00:00"], ["date:2020-08-31", "date:2021-01-31"],
        ["2021-03-02T09:00:00", "2021-05-16T15:30:00"],
    ]
    for ti, ts in enumerate(T):
        for mode in ("svg", "tex"):
            for ov in ("none", "partial"):
                if tier == "quick" and ti < 13 and (ti + (mode == "tex") + (ov == "none")) % 2:
                    continue
                if tier == "quick" and ti >= 13 and (mode == "tex") != (ov == "none"):
                    continue
                out.append(mk_cfg("c11-%s-time-derived-%d-%s" % (mode, ti, ov), mode=mode, scale="time-derived", n=len(ts), ctimes=ts, optvar=ov, direction=DIRS[ti % 4], texts=[ti % 4, 0, 1]))
    for mode in ("svg", "tex"):
        for ov in ("none", "empty"):
            out.append(mk_cfg("c11-%s-single-datum-then-another-timeline-%s" % (mode, ov), mode=mode, scale="time-derived", n=1, ctimes=["2021-01-31T10:00:00"], optvar=ov, direction="right", texts=[1],
                              then_construct=dict(n=2, ctimes=["1990-01-01T00:00:00", "1999-03-01T00:00:00"], name="other")))
    L = [[5.0], [3.0, 3.0], [88.0, 3.0], [1e-7, 2e-7], [0.0, 1e9, -1e9]]
    for li, ls in enumerate(L):
        for mode in ("svg", "tex"):
            out.append(mk_cfg("c11-%s-linear-derived-%d" % (mode, li), mode=mode, scale="linear-derived", n=len(ls), ctimes=ls, optvar="partial", direction=DIRS[li % 4], texts=[li % 4, 0, 2]))
    # engine options: algorithms, bounds (tight bounds force layers), tick display
    for ai, alg in enumerate(("overlap", "simple", "none")):
        for bi, (lo, hi) in enumerate(((0, None), (0, 60), (None, 150), (20, 45))):
            lab = {"algorithm": alg, "minPos": lo, "maxPos": hi}
            out.append(mk_cfg("c11-engine-%s-lo%s-hi%s" % (alg, lo, hi), n=2 if tier == "quick" else 3, labella=lab, mode=("svg", "tex")[(ai + bi) % 2], direction=DIRS[(ai + bi) % 4], ticks=bool((ai + bi) % 2), vpsc="contract", texts=[1, 0, 2]))
    return out


def c11(sink, cfg, val, sym):
    if sym:
        with_vpsc(cfg)
    try:
        tl, data, opts, info = build(cfg, val, sym)
        if cfg.get("then_construct"):
            # another timeline (other data, default scale) is constructed before this one is exported
            other = dict(cfg)
            other.update(cfg["then_construct"])
            build(other, (lambda name, lo, hi: val("o_" + name, lo, hi)), sym)
        doc = export(tl, cfg["mode"])
    except Exception as ex:
        if sink.mode == "conc" and not props.exception_from_code_under_test(ex):
            raise
        import traceback

        tb = traceback.extract_tb(ex.__traceback__)
        where = ["%s:%d" % (f.filename.split("/")[-1], f.lineno) for f in tb if "labella" in f.filename][-2:]
        sink.check("construct-and-export-never-raise", False, info="%s: %s at %s" % (type(ex).__name__, str(ex)[:100], where))
        return None
    finally:
        forceh.use_contract(False)
    sink.check("export-returns-a-document", isinstance(doc, str) and len(doc) > 0)
    # degenerate domain => every dot at the start of the axis
    if cfg["scale"].endswith("derived") and len(set(map(str, cfg["ctimes"]))) == 1:
        pos = [nd.getRoot().idealPos for nd in tl.nodes]
        sink.check("degenerate-domain-puts-dots-at-the-axis-start", all((p == 0) is True for p in pos), info=str(pos))
    return tl, doc


# ------------------------------------------------------------------------------------ C10
def tl_spec(tag, **kw):
    d = mk_cfg(tag, **kw)
    d["tag"] = tag
    return d


def c10_configs(tier):
    A_time = tl_spec("A", scale="time-derived", n=2, ctimes=["2020-01-01T00:00:00", "2020-03-01T12:00:00"], optvar="empty", texts=[1, 2])
    B_time = tl_spec("B", scale="time-derived", n=2, ctimes=["1990-01-01T00:00:00", "1999-03-01T00:00:00"], optvar="partial", direction="up")
    C_time = tl_spec("C", scale="time-derived", n=3, ctimes=["2021-06-15T00:00:00.001", "2021-06-15T00:00:00.004", "2021-06-15T00:00:00.002"], optvar="none", mode="tex")
    A_lin = tl_spec("A", scale="linear-explicit", n=2, optvar="partial", direction="down")
    B_lin = tl_spec("B", scale="linear-explicit", n=2, optvar="partial", direction="left", mode="tex")
    # text labels drawn left / right (their item sizes are rotated once at construction): fixed widths, repeated exports
    G_rot = tl_spec("G", scale="linear-derived", n=2, ctimes=[10.0, 40.0], fixedw=[30, 50], texts=[1, 3], optvar="partial", direction="left", mode="tex")
    H_rot = tl_spec("H", scale="linear-derived", n=2, ctimes=[5.0, 45.0], fixedw=[44, 21], texts=[2, 1], optvar="partial", direction="right", mode="svg")
    # crowded timeline whose layer 0 holds neighbouring stubs (line spacing matters) and one that sets its own lineSpacing
    Q = tl_spec("Q", scale="linear-derived", n=5, ctimes=[50.0, 50.5, 51.0, 51.5, 49.5], optvar="partial", labella={"maxPos": 150, "algorithm": "overlap"}, direction="down", fixedw=[60, 60, 60, 60, 60])
    P = tl_spec("P", scale="linear-derived", n=5, ctimes=[10.0, 10.5, 11.0, 11.5, 12.0], optvar="partial", labella={"maxPos": 150, "lineSpacing": 9, "nodeSpacing": 5}, direction="down", fixedw=[60, 60, 60, 60, 60], mode="tex")
    D_time = tl_spec("D", scale="time-derived", n=2, ctimes=["1990-01-01T00:00:00", "1999-03-01T00:00:00"], optvar="none")
    pairs = [("time", [A_time, B_time]), ("time2", [B_time, C_time]), ("time3", [A_time, D_time]), ("time4", [D_time, C_time]), ("lin", [A_lin, B_lin]), ("mixed", [A_lin, A_time]), ("crowd", [P, Q])]
    E_time = tl_spec("E", scale="time-derived", n=2, ctimes=["2021-03-01T06:30:00", "2021-03-20T18:00:00"], optvar="partial", direction="down", share_opts="S1")
    F_time = tl_spec("F", scale="time-derived", n=2, ctimes=["1999-01-05T00:00:00", "1999-11-25T12:00:00"], optvar="partial", direction="down", share_opts="S1")
    pairs.append(("sameopts", [E_time, F_time]))
    pairs.append(("rotated", [G_rot, H_rot]))
    hists2 = [["c0", "c1", "e0", "e1"], ["c0", "c1", "e1", "e0"], ["c0", "e0", "c1", "e0", "e1"], ["c0", "c1", "e0", "e0", "e1", "e1"], ["c1", "e1", "c0", "e0", "e1"]]
    out = []
    for pn, tls in pairs:
        for hi, h in enumerate(hists2):
            out.append(dict(name="c10-%s-h%d" % (pn, hi), kind="c10", tls=tls, hist=h, weight=3))
    if tier != "quick":
        tl3 = [A_time, B_time, C_time]
        for hi, h in enumerate([["c0", "c1", "c2", "e0", "e1", "e2"], ["c0", "e0", "c1", "c2", "e2", "e0", "e1"], ["c2", "c1", "c0", "e0", "e1", "e2", "e0"]]):
            out.append(dict(name="c10-three-h%d" % hi, kind="c10", tls=tl3, hist=h, weight=5))
        tl3 = [A_lin, Q, P]
        for hi, h in enumerate([["c0", "c1", "c2", "e2", "e1", "e0"], ["c2", "e2", "c1", "c0", "e1", "e0"]]):
            out.append(dict(name="c10-three-b-h%d" % hi, kind="c10", tls=tl3, hist=h, weight=5))
    return out


def _vals_for(spec, val):
    """each timeline draws its own named inputs: prefix by tag"""
    def v(name, lo, hi):
        if spec.get("fixedw") and name.startswith("w"):
            return float(spec["fixedw"][int(name[1:])])
        return val("%s_%s" % (spec["tag"], name), lo, hi)

    return v


def c10(sink, cfg, val, sym):
    from vlib import instr

    e = sink.e if sym else None
    tls = cfg["tls"]
    norm = (lambda t: norm_doc(e, t)) if sym else (lambda t: t)
    instr.fresh_import()
    objs = {}
    docs = {}
    for op in cfg["hist"]:
        k = int(op[1:])
        if op[0] == "c":
            objs[k] = build(tls[k], _vals_for(tls[k], val), sym)[0]
        else:
            docs.setdefault(k, []).append(export(objs[k], tls[k]["mode"]))
    for k, lst in docs.items():
        instr.fresh_import()
        if sym:
            e.pm.pop("shared_opts", None)
        _CONC_SHARED.clear()
        ref = export(build(tls[k], _vals_for(tls[k], val), sym)[0], tls[k]["mode"])
        for j, dct in enumerate(lst):
            same = norm(dct) == norm(ref)
            info = "timeline %s export #%d in history %s" % (tls[k]["tag"], j, " ".join(cfg["hist"]))
            if not same and sym:
                same = holes_equal(e, dct, ref)
            if not same and not sym:
                info += " | first difference: %s" % first_diff(dct, ref)
            sink.check("export-equals-the-same-timeline-alone-in-a-fresh-process", same, info=info)
    instr.fresh_import()


def first_diff(a, b):
    for i, (x, y) in enumerate(zip(a, b)):
        if x != y:
            return "...%s| vs |%s..." % (a[max(0, i - 40) : i + 40].replace("\n", " "), b[max(0, i - 40) : i + 40].replace("\n", " "))
    return "lengths %d vs %d" % (len(a), len(b))


def holes_equal(e, a, b):
    """same skeleton and pairwise equal hole terms (same conversion)"""
    sa, sb = HOLE.split(a), HOLE.split(b)
    if sa != sb:
        return False
    ha, hb = HOLE.findall(a), HOLE.findall(b)
    conj = []
    for x, y in zip(ha, hb):
        (tx, cx), (ty, cy) = e.holes[x], e.holes[y]
        if cx != cy:
            return False
        conj.append(tx == ty)
    return And(*conj)


# ------------------------------------------------------------------------------------ C07 / C08 / C09
def affine_fn(cfg, tl):
    from . import pic

    sc = cfg["scale"]
    L = pic.axis_len(cfg)
    if sc == "linear-explicit":
        return lambda t: (t if isinstance(t, E.SymNum) else Fraction(t)) * Fraction(L) / Fraction(D1 - D0) - Fraction(D0) * L / Fraction(D1 - D0)
    if sc == "time-explicit":
        a, b = SymDT.lift(TD0).us, SymDT.lift(TD1).us

        def f(t):
            u = SymDT.lift(t).us if not isinstance(t, SymDT) else t.us
            return (u - a) * Fraction(L, b - a)

        return f
    # derived domains (concrete data): the domain the scale reports after construction
    dom = tl.options["scale"].domain()
    if sc == "linear-derived":
        a, b = Fraction(dom[0]), Fraction(dom[1])
        return lambda t: Fraction(0) if a == b else (Fraction(t) - a) * L / (b - a)
    a, b = SymDT.lift(dom[0]).us, SymDT.lift(dom[1]).us

    def g(t):
        if isinstance(t, _dt.datetime):
            u = SymDT.lift(t).us
        elif isinstance(t, _dt.date):
            u = SymDT.lift(_dt.datetime.combine(t, _dt.time())).us
        else:
            u = SymDT.lift(t).us
        return Fraction(0) if a == b else Fraction(u - a) * L / (b - a)

    return g


def picture(cfg, val, sym, mode):
    from . import docs

    tl, data, opts, info = build(cfg, val, sym, mode)
    doc = export(tl, mode)
    P = docs.parse_svg(doc) if mode == "svg" else docs.parse_tikz(doc)
    tl._supplied_times = list(info["times"])
    return tl, data, P


def fmt_ticks(tl):
    sc = tl.options["scale"]
    f = sc.tickFormat()
    return [(t, f(t)) for t in sc.ticks()]


def pic_configs(tier, prop):
    out = []
    k = 0
    scales = ["linear-explicit", "time-explicit"]
    for mode in ("svg", "tex"):
        for sc in scales:
            for d in DIRS:
                k += 1
                out.append(mk_cfg("%s-%s-%s-%s-n2" % (prop, mode, sc, d), mode=mode, scale=sc, direction=d, n=2, texts=[k % 5, (k + 2) % 5], ticks=bool(k % 3)))
    # other drawing sizes and margins (the axis length is initialWidth/Height minus the margins of that orientation)
    for mode in ("svg", "tex"):
        for d in DIRS:
            k += 1
            out.append(mk_cfg("%s-%s-size-%s" % (prop, mode, d), mode=mode, scale=("linear-explicit", "time-explicit")[k % 2], direction=d, n=2, texts=[k % 5, 0],
                              size=[640, 333, dict(left=31, right=17, top=9, bottom=44)], ticks=True))
    # layers and stubs: crowded labels with an upper bound, contract stub for vpsc
    for mode in ("svg", "tex"):
        for d in DIRS:
            for alg in ("overlap", "simple"):
                k += 1
                if tier == "quick" and (k % 2) and prop != "c08":
                    continue
                out.append(mk_cfg("%s-%s-layers-%s-%s" % (prop, mode, alg, d), mode=mode, scale="linear-explicit", direction=d, n=3, labella={"maxPos": 120, "algorithm": alg}, vpsc="contract", texts=[1, 0, 3], layergap=(60, 3, 1)[k % 3], weight=40, shards=4))
    if prop == "c07":
        # three layers in the quick tier: algorithm_overlap keeps at least two items per layer, so three layers need five labels;
        # three of the five times are pinned, two are symbolic (the fully symbolic five-label configuration is in the thorough tier)
        for mode, d in (("svg", "down"), ("tex", "right")):
            out.append(mk_cfg("c07-%s-three-layers-pinned-%s" % (mode, d), mode=mode, scale="linear-explicit", direction=d, n=5, fixedw=[60, 60, 60, 60, 60], pinned=[None, 30.0, 40.0, None, 55.0], labella={"maxPos": 130, "algorithm": "overlap"}, vpsc="contract", texts=[0, 1, 0, 0, 0], weight=100, shards=8))
    if prop == "c07" and tier != "quick":
        # three layers (a label two layers out owns a chain of two stubs): five labels of fixed width, symbolic times
        # (about 4 minutes on 16 cores: thorough tier only)
        for mode, d in (("svg", "down"),):
            out.append(mk_cfg("c07-%s-three-layers-%s" % (mode, d), mode=mode, scale="linear-explicit", direction=d, n=5, fixedw=[60, 60, 60, 60, 60], labella={"maxPos": 130, "algorithm": "overlap"}, vpsc="contract", texts=[0, 1, 0, 0, 0], weight=300, shards=12))
    # derived domains on concrete data (date / time-of-day / datetime with time of day, unsorted, algorithm none)
    shapes = [["2021-01-31T10:15:00", "2021-01-29T23:59:59.999"], ["date:2021-01-30", "date:2021-03-31"], ["2021-03-01T06:00:00", "2021-03-01T18:30:00", "2021-03-02T01:00:00"]]
    for si, ts in enumerate(shapes):
        for mode in ("svg", "tex"):
            k += 1
            out.append(mk_cfg("%s-%s-derived-%d" % (prop, mode, si), mode=mode, scale="time-derived", n=len(ts), ctimes=ts, direction=DIRS[k % 4], texts=[1, 4, 3], labella={"algorithm": "none"} if si == 0 else None))
    if prop == "c08":
        # bordered TikZ / SVG boxes with unequal widths (the bordered TikZ branch draws its own rectangle)
        for d in DIRS:
            for mode in ("svg", "tex"):
                out.append(mk_cfg("c08-border-%s-%s" % (mode, d), mode=mode, scale="linear-explicit", direction=d, n=2, border=True, texts=[1, 2], layergap=(12, 60)[DIRS.index(d) % 2], weight=6))
        # custom padding whose left+right differs from top+bottom by 3 or more (the solver width and the drawn box must agree)
        for d in DIRS:
            for mode in ("svg", "tex"):
                out.append(mk_cfg("c08-padding-%s-%s" % (mode, d), mode=mode, scale="linear-explicit", direction=d, n=2, padding=dict(left=6, right=6, top=3, bottom=2), texts=[0, 1], weight=6))
        # two labels in the second layer (their stubs may have been pushed together in the first one)
        for d in ("down", "left"):
            out.append(mk_cfg("c08-layers4-simple-%s" % d, mode="svg", scale="linear-explicit", direction=d, n=4, labella={"maxPos": 130, "algorithm": "simple"}, vpsc="contract", texts=[0, 0, 0, 0], layergap=60, weight=80, shards=8))
    if prop == "c09":
        for ci, cs in enumerate(("set1", "set2")):
            for bi, border in enumerate((True, False)):
                out.append(mk_cfg("c09-colors-%s-%s" % (cs, "border" if border else "noborder"), scale="linear-explicit", n=3, colors=cs, border=border, direction=DIRS[(ci * 2 + bi) % 4], texts=[1, 0, 2], vpsc="contract", labella={"maxPos": 300}))
    out.append(mk_cfg("%s-tex-none-unsorted" % prop, mode="tex", scale="linear-derived", n=3, ctimes=[80.0, 10.0, 45.0], labella={"algorithm": "none"}, texts=[1, 2, 3], direction="up"))
    out.append(mk_cfg("%s-svg-none-unsorted" % prop, mode="svg", scale="linear-derived", n=3, ctimes=[80.0, 10.0, 45.0], labella={"algorithm": "none"}, texts=[1, 2, 3], direction="left"))
    return out


def c07(sink, cfg, val, sym):
    from labella.tex import uni2tex

    from . import docs, pic

    if sym:
        with_vpsc(cfg)
    try:
        tl, data, P = picture(cfg, val, sym, cfg["mode"])
    finally:
        forceh.use_contract(False)
    V = docs.Vals(sink.e) if sym else docs.ConcVals()
    aff = affine_fn(cfg, tl)
    pic.c07(sink, cfg, tl, data, P, V, aff, cfg["mode"], uni2tex, times=tl._supplied_times)
    pic.ticks_c07(sink, cfg, tl, P, V, aff, fmt_ticks(tl))


def c08(sink, cfg, val, sym):
    from . import docs, pic

    if sym:
        with_vpsc(cfg)
    try:
        tl, data, P = picture(cfg, val, sym, cfg["mode"])
    finally:
        forceh.use_contract(False)
    V = docs.Vals(sink.e) if sym else docs.ConcVals()
    pic.c08(sink, cfg, tl, P, V)


def c09(sink, cfg, val, sym):
    from labella.tex import uni2tex

    from . import docs, pic

    if sym:
        with_vpsc(cfg)
    try:
        tls, datas, Ps = picture(cfg, val, sym, "svg")
        tlt, datat, Pt = picture(cfg, val, sym, "tex")
    finally:
        forceh.use_contract(False)
    Vs = docs.Vals(sink.e) if sym else docs.ConcVals()
    pic.c09(sink, cfg, Ps, Pt, Vs, Vs, uni2tex)
