"""C14 -- nice() only widens a domain, by less than two tick steps, to round end points."""
from . import ticksh

PROPERTY = "C14"
ENGINE_OPTS = dict(nl_mode="exact", timeout_ms=30000)
EXPLANATION = (
    "LINEAR scales: bounded symbolic execution of the real LinearScale.nice(m) (d3_scale_linearNice = two passes of d3_scale_nice with "
    "d3_scale_niceStep over d3_scale_linearTickRange) on a symbolic domain of either orientation; z3 proves per path that no end point moves "
    "inward, the orientation is kept, each end moves outward by less than two tick steps of the RESULTING domain, and each new end point is an "
    "integer multiple of step/10. TIME scales: see the calendar configurations (time-*) of this check: TimeScale.nice() on symbolic datetimes."
)
BOUNDS = {
    "quick": dict(linear="end points in [-1e9,1e9], span in [1e-9,1e12] and >= 1e-6*|end point|; m in {1,2,5,10,default}", time="see DESIGN.md C14"),
    "thorough": dict(linear="m in 1..20 and default"),
}
OUTSIDE = ["m > 20", "IEEE rounding (10**-k is the decimal 1/10^k)"]
ASSUMPTIONS = ["floats as exact reals", "floor(log10 x) contract with both neighbours at exact powers of ten"]


def configs(tier):
    ms = [1, 2, 5, 10, None] if tier == "quick" else list(range(1, 21)) + [None]
    c = ticksh.configs_for(ms, "nice")
    try:
        from . import timeh

        c += timeh.nice_configs(tier)
    except ImportError:
        pass
    return c


def run(e, cfg):
    if cfg["kind"].startswith("time"):
        from . import timeh

        return timeh.run(e, cfg)
    return ticksh.run(e, cfg)


def replay(cfg, inputs, check, info):
    if cfg["kind"].startswith("time"):
        from . import timeh

        return timeh.replay(cfg, inputs, check, info, "C14")
    return ticksh.replay(cfg, inputs, check, info, "C14")
