"""C14 -- nice() only widens a domain, by less than two tick steps, to round end points."""
from . import ticksh

PROPERTY = "C14"
NORMAL_FORM_DECIDES = True
ENGINE_OPTS = dict(nl_mode="exact", timeout_ms=30000, max_decisions=20000)
EXPLANATION = (
    "LINEAR scales: bounded symbolic execution of the real LinearScale.nice(m) (d3_scale_linearNice = two passes of d3_scale_nice with "
    "d3_scale_niceStep over d3_scale_linearTickRange) on a symbolic domain of either orientation; z3 proves per path that no end point moves "
    "inward, the orientation is kept, each end moves outward by less than two tick steps of the RESULTING domain, and each new end point is an "
    "integer multiple of step/10. TIME scales: the real TimeScale.nice() / nice(count) (tickMethod, d3_scale_nice, time_nice_floor/ceil with the "
    "skipped() predicate, every interval's floor/ceil/range) on a domain whose earlier end is one of 8 concrete calendar anchors (month end, leap "
    "day, year end, before the epoch, sub-second offsets; thorough: also fully symbolic) and whose span is symbolic inside each of the 19 windows of "
    "the code's step table; z3 proves orientation kept, no end moved inward, each end moved outward by less than two tick steps of the ORIGINAL "
    "domain's ticks (the gaps of TimeScale.ticks on the original domain), and both new ends aligned to the calendar unit the delivered tick "
    "spacing implies (>= 1 s whole seconds ... >= 365 d 1 January)."
)
BOUNDS = {
    "quick": dict(linear="end points in [-1e9,1e9], span in [1e-9,1e12] and >= 1e-6*|end point|; m in {1,2,5,10,default}", time="see DESIGN.md C14"),
    "thorough": dict(linear="m in 1..20 and default"),
}
OUTSIDE = ["m > 20", "IEEE rounding (10**-k is the decimal 1/10^k)"]
ASSUMPTIONS = ["floats as exact reals", "floor(log10 x) contract with both neighbours at exact powers of ten"]


def configs(tier):
    ms = [1, 2, 5, 10, None] if tier == "quick" else list(range(1, 21)) + [None]
    c = ticksh.configs_for(ms, "nice")
    try:
        from . import timeh

        c += timeh.nice_configs(tier)
    except ImportError:
        raise
    return c


def run(e, cfg):
    if cfg["kind"].startswith("time"):
        from . import timeh

        return timeh.run(e, cfg)
    return ticksh.run(e, cfg)


def replay(cfg, inputs, check, info):
    if cfg["kind"].startswith("time"):
        from . import timeh

        return timeh.replay(cfg, inputs, check, info, "C14")
    return ticksh.replay(cfg, inputs, check, info, "C14")
