"""C06 -- a layout is a pure function of the labels and options."""
import itertools
from fractions import Fraction

from vlib import engine as E
from vlib.engine import And, Or, Not, Implies

from . import forceh, props

PROPERTY = "C06"
# The property is an identity between two symbolic results on a path.  Because the contract stub returns the same
# solution variables for a syntactically identical QP, the two results usually have IDENTICAL linear normal forms
# (exact rational coefficients): that decides equality for every value of the region without a solver call.  The
# path regions themselves are solver-decided; any non-identical pair goes to z3.
NORMAL_FORM_DECIDES = True
EXPLANATION = (
    "Two runs of the real Force/Distributor/removeOverlap/Node code on the SAME symbolic labels inside one path: (A) a concrete history of "
    "engine calls (compute twice; compute under tighter options then re-configure and compute; the same after nodes() again; a second engine "
    "on already laid-out label objects; a sub-list of laid-out labels; label objects with arbitrary symbolic stale currentPos/layerIndex/"
    "overlapCount and a dangling stub) or an input permutation, and (B) a fresh engine on fresh label objects with the final options. "
    "vpsc.Solver.solve is replaced by its contract (the exact KKT optimum of the QP built by the real removeOverlap), so each run's positions "
    "are round() of the unique optimum; z3 proves, under the assumption 'equal data position => equal width', that some matching of labels "
    "with identical (position, width) makes layer index and position equal in both runs for every label."
)
BOUNDS = {
    "quick": dict(labels="2..3", histories="twice, reconf, renodes, engine2, subset, stale, interleaved engines (<= 6 engine calls); all permutations of <= 3 labels", value_box="positions in [-20,130], widths in (0,80], spacing in [0,10]; bounds (0,100) and (None,100)"),
    "thorough": dict(labels="1..3", grid="bounds {(0,100),(None,100),(0,60)}, density {0.85,0.5}, stubWidth {1,5}"),
}
OUTSIDE = ["more than 4 labels / 6 engine calls", "labels sharing a data position with different widths (their order follows the input order, by the statement)"]
ASSUMPTIONS = [
    "vpsc.Solver.solve replaced by its contract (unique KKT optimum; decided for the real solver by C05/C01/C02)",
    "IntervalTree modelled by its contract; floats as exact reals",
    "assumption of the statement: labels with equal data position have equal width",
]


def configs(tier):
    F = forceh.make_configs
    hs = ("twice", "reconf", "renodes", "engine2", "subset", "stale", "interleaved")
    if tier == "quick":
        c = F([2], algs=("overlap", "simple", "none"), bounds=((0, 100), (None, 100)), hists=hs)
        c += F([3], algs=("overlap", "simple"), bounds=((0, 100),), hists=hs, shards=4)
        perm_ns = [2, 3]
    else:
        c = F([1, 2], bounds=((0, 100), (None, 100), (0, 60)), dens=(0.85, 0.5), stubws=(1, 5), hists=hs)
        c += F([3], algs=("overlap", "simple"), bounds=((0, 100), (0, 60)), hists=hs, shards=4)
        perm_ns = [2, 3]
    for n in perm_ns:
        for alg in ("overlap", "simple", "none"):
            for perm in itertools.permutations(range(n)):
                if list(perm) == list(range(n)):
                    continue
                d = F([n], algs=(alg,), bounds=((0, 100),), hists=("fresh",))[0]
                d["perm"] = list(perm)
                d["name"] += "-perm" + "".join(map(str, perm))
                if n >= 4:
                    d["shards"] = 4
                c.append(d)
    for d in c:
        d["tie_split"] = True
    return c


def reference(cfg, sc):
    """fresh engine, fresh label objects, final options; labels presented in cfg['perm'] order"""
    from labella.force import Force
    from labella.node import Node

    live_ids = [nd.vid for nd in sc.live]
    order = cfg.get("perm") or list(range(len(live_ids)))
    fresh = {}
    lst = []
    for k in order:
        if k >= len(live_ids):
            continue
        v = live_ids[k]
        nd = Node(sc.p[v], sc.w[v], data="d%d" % v)
        nd.vid = v
        fresh[v] = nd
        lst.append(nd)
    o = dict(sc.opts)
    o["nodeSpacing"] = sc.s
    f = Force(o)
    f.nodes(lst)
    f.compute()
    return fresh


def assert_pure(sink, cfg, sc, ref, num):
    live = sc.live
    ids = [nd.vid for nd in live]
    assume = []
    for a, b in itertools.combinations(ids, 2):
        assume.append(Implies(num(sc.p[a]) == num(sc.p[b]), num(sc.w[a]) == num(sc.w[b])))
    alts = []
    for pi in itertools.permutations(ids):
        conj = []
        for a, b in zip(ids, pi):
            A = [nd for nd in live if nd.vid == a][0]
            B = ref[b]
            la, lb = A.layerIndex, B.layerIndex
            if not (la == lb) is True:
                conj = None
                break
            if a != b:
                conj.append(num(sc.p[a]) == num(sc.p[b]))
                conj.append(num(sc.w[a]) == num(sc.w[b]))
            conj.append(num(A.currentPos) == num(B.currentPos))
        if conj is not None:
            alts.append(And(*conj))
    info = "history=%s perm=%s layersA=%s layersB=%s" % (cfg["hist"], cfg.get("perm"), [nd.layerIndex for nd in live], [ref[v].layerIndex for v in ids])
    sink.check("same-layer-and-position-as-a-fresh-engine", Or(*alts) if alts else False, assumptions=assume, info=info)


def run(e, cfg):
    forceh.use_contract(True)
    try:
        sc = forceh.scenario(cfg, forceh.sym_val(e))
        ref = reference(cfg, sc)
    finally:
        forceh.use_contract(False)
    assert_pure(props.SymSink(e), cfg, sc, ref, lambda x: x)


def replay(cfg, inputs, check, info):
    sc = forceh.scenario(cfg, forceh.conc_val(inputs))
    ref = reference(cfg, sc)
    sink = props.ConcSink()
    assert_pure(sink, cfg, sc, ref, lambda x: Fraction(x))
    d = "; ".join("label%d(pos=%s,w=%s): history run -> layer %s at %s, fresh engine -> layer %s at %s" % (nd.vid, nd.idealPos, nd.width, nd.layerIndex, nd.currentPos, ref[nd.vid].layerIndex, ref[nd.vid].currentPos) for nd in sc.live)
    return dict(violated=bool(sink.bad), detail="; ".join(sink.bad[:2]) + " | s=%s %s | %s" % (sc.s, cfg["name"], d), signature="C06:%s:%s" % (cfg["hist"], cfg["alg"]))
