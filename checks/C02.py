"""C02 -- least-squares optimal placement (KKT oracle inside the solver)."""
from . import layer, forceh

PROPERTY = "C02"
EXPLANATION = (
    "Same exploration as C01 (real removeOverlap + vpsc on one layer with symbolic targets/widths/spacing/bounds, all item-kind "
    "multisets). On every path the solver is given an INDEPENDENT oracle: fresh reals x*_k and multipliers constrained by the "
    "exact KKT system (stationarity, primal and dual feasibility, complementarity) of the hard-bound QP  min sum (x_k - target_k)^2 "
    "s.t. the adjacent-pair gaps and, when configured, x_0 - w_0/2 >= lo and x_last + w_last/2 <= hi. The QP is strictly convex, "
    "so KKT has exactly one solution when feasible; its satisfiability is checked per path (vacuity guard) and z3 proves "
    "|currentPos_k - x*_k| <= 0.5 + 0.01 for every item under the assumption that the layer fits between the bounds "
    "(or has fewer than two bounds). Corollary proved separately: if all targets already respect gaps and bounds, every item is "
    "within rounding of its target. The target used by the code (data position, or the parent stub's final position) is read back "
    "from the real node objects, so 'deeper layers track their stubs' is part of the assertion."
)
BOUNDS = {
    "quick": dict(items="1..3 (n=3: kinds L,C,S; the stub-under-stub kind T only for n<=2)", value_box="targets in [-1e4,1e4], widths in (0,1000], spacing in [0,50], lower bound in [-1e4,1e4], upper in [-1e4,3e4]", tolerance="0.5 rounding + 0.01 for the code's 1e10-weight soft walls and 1e-4 multiplier tolerance"),
    "thorough": dict(items="1..3 with all four item kinds (4 items with the KKT oracle were measured beyond 20 minutes and are not registered)", value_box="as quick"),
}
OUTSIDE = ["layers that do not fit between two bounds (the property's own restriction)", "layers of more than 3 items", "IEEE-754 rounding"]
ASSUMPTIONS = [
    "floats as exact reals; round() ties-to-even",
    "Solver.solve cost-stationarity test over-approximated (both outcomes explored)",
    "KKT conditions characterise the unique optimum of a strictly convex QP (textbook convexity, not solver-checked)",
]


def configs(tier):
    return _layer_configs(tier) + _force_configs(tier)


def _force_configs(tier):
    F = forceh.make_configs
    if tier == "quick":
        return F([2, 3]) + F([2], algs=("overlap", "simple"), bounds=((0, 100),), hists=("reconf", "engine2", "stale", "subset", "interleaved"))
    c = F([1, 2, 3], dens=(0.85, 0.5), stubws=(1, 5), bounds=((0, 100), (None, 100), (0, None), (-30, 45)))
    c += F([2], bounds=((0, 100), (None, 100)), hists=("twice", "reconf", "renodes", "engine2", "subset", "stale", "interleaved"))
    c += F([2], vpsc="real")  # the real vpsc end to end (no contract stub)
    return c


def _layer_configs(tier):
    if tier == "quick":
        return layer.make_configs([1, 2]) + layer.make_configs([3], kinds="LCS")
    c = layer.make_configs([1, 2, 3])
    # four items: labels and stubs, without / with one bound; two bounds for labels only (sharded)
    return c


def run(e, cfg):
    if cfg.get("harness") == "force":
        return forceh.run(e, cfg, "C02")
    return layer.run(e, cfg, "C02")


def replay(cfg, inputs, check, info):
    if cfg.get("harness") == "force":
        return forceh.replay(cfg, inputs, check, info, "C02")
    return layer.replay(cfg, inputs, check, info, "C02")
