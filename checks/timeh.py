"""Shared calendar harness (C14-time, C15, C16, C17, C18): the real labella.d3_time / TimeScale code on symbolic
naive datetimes (vlib.symdt).  Oracles are predicates over the calendar model (field level / epoch
level), independent of the route the code takes."""
import datetime as _dt
from fractions import Fraction

from vlib import engine as E
from vlib import symdt
from vlib.engine import And, Or, Not, Implies
from vlib.symdt import SymDT, DAY_US, day_number, dim

from . import props

US = dict(second=10**6, minute=60 * 10**6, hour=3600 * 10**6, day=DAY_US, week=7 * DAY_US)
UNITS = ["second", "minute", "hour", "day", "week", "month", "year"]
# 1970-01-01 was a Thursday: day number 3 (1970-01-04) is a Sunday
WEEK_PHASE = 3 * DAY_US


def us_of(x):
    return SymDT.lift(x).us if not isinstance(x, SymDT) else x.us


def phase(unit):
    return WEEK_PHASE if unit == "week" else 0


def month_index(dtv):
    """months since year 0 of the civil month containing the instant (materialises the civil date)"""
    return dtv.year * 12 + (dtv.month - 1)


def first_of_month_us(idx_y, idx_m):
    return day_number(idx_y, idx_m, 1) * DAY_US


def norm_month(y, m0):
    """(year, month) for year y and 0-based month offset m0 >= 0 (concrete m0)"""
    return y + m0 // 12, m0 % 12 + 1


def is_boundary(unit, t):
    N, tod = t._split()
    if unit in ("second", "minute", "hour"):
        h, mi, sec, us = t._hms()
        if unit == "second":
            return us == 0
        if unit == "minute":
            return And(us == 0, sec == 0)
        return And(us == 0, sec == 0, mi == 0)
    if unit == "day":
        return tod == 0
    if unit == "week":
        return And(tod == 0, (N + 4) % 7 == 0)
    if unit == "month":
        return And(tod == 0, t.day == 1)
    return And(tod == 0, t.day == 1, t.month == 1)


def floor_dt(unit, t):
    """own floor: the latest boundary not after t, built from t's OWN decomposition (day number, h/m/s, civil fields)"""
    N, tod = t._split()
    if unit in ("second", "minute", "hour"):
        h, mi, sec, us = t._hms()
        if unit == "second":
            return SymDT.from_split(N, ((h * 60 + mi) * 60 + sec) * 10**6)
        if unit == "minute":
            return SymDT.from_split(N, (h * 60 + mi) * 60 * 10**6)
        return SymDT.from_split(N, h * 3600 * 10**6)
    if unit == "day":
        return SymDT.from_split(N, 0)
    if unit == "week":
        return SymDT.from_split(N - (N + 4) % 7, 0)
    if unit == "month":
        return SymDT.from_split(day_number(t.year, t.month, 1), 0, symdt.Civil(t.year, t.month, 1))
    return SymDT.from_split(day_number(t.year, 1, 1), 0, symdt.Civil(t.year, 1, 1))


def next_dt(unit, b, k=1):
    """k-th boundary after the boundary b (a SymDT produced by floor_dt / next_dt or assumed to be a boundary)"""
    if k == 0:
        return b
    if unit in ("second", "minute", "hour"):
        return SymDT(b.us + k * US[unit])
    N, tod = b._split()
    if unit == "day":
        return SymDT.from_split(N + k, tod)
    if unit == "week":
        return SymDT.from_split(N + 7 * k, tod)
    if unit == "month":
        y, m = norm_month(b.year, b.month - 1 + k)
        return SymDT.from_split(day_number(y, m, 1), tod, symdt.Civil(y, m, 1))
    return SymDT.from_split(day_number(b.year + k, 1, 1), tod, symdt.Civil(b.year + k, 1, 1))


def unit_number(unit, t):
    if unit == "second":
        return t.second
    if unit == "minute":
        return t.minute
    if unit == "hour":
        return t.hour
    if unit == "day":
        return t.day - 1
    if unit == "month":
        return t.month - 1
    if unit == "year":
        return t.year
    raise E.ModelGap("week number")


def fresh_t(e, name, cfg):
    return SymDT.fresh(e, name, cfg.get("ylo", 1900), cfg.get("yhi", 2200), 1000)


# ------------------------------------------------------------------------------------ C17
def c17_configs(tier, tz="utc"):
    out = []
    ks = {"second": [0, 1, 59, 400], "minute": [0, 1, 61, 400], "hour": [0, 1, 25, 400], "day": [0, 1, 2, 3, 31], "week": [0, 1, 3, 53], "month": [0, 1, 11, 12, 13, 24], "year": [0, 1, 10]}
    for unit in UNITS:
        for op in ("floor", "ceil", "round"):
            out.append(dict(name="c17-%s-%s" % (unit, op), kind="time-c17", unit=unit, op=op, tz=tz, weight=3))
        for k in ks[unit] if tier != "quick" else ks[unit][:4]:
            out.append(dict(name="c17-%s-offset%d" % (unit, k), kind="time-c17", unit=unit, op="offset", k=k, tz=tz, weight=2))
        dts = [1, 2, 3, 5, 12] if tier != "quick" else [1, 2, 5]
        for dt in dts:
            if unit == "week" and dt != 1:
                continue
            out.append(dict(name="c17-%s-range-dt%d" % (unit, dt), kind="time-c17", unit=unit, op="range", dt=dt, span=4 if tier == "quick" else 8, tz=tz, weight=20, shards=4))
    return out


def c17(sink, cfg, mk, num):
    from labella.d3_time import d3_time

    unit, op = cfg["unit"], cfg["op"]
    iv = d3_time[unit]
    t = mk("t")
    if op in ("floor", "ceil", "round"):
        r = SymDT.lift(getattr(iv, op)(t))
        F = floor_dt(unit, t)
        if op == "floor":
            sink.check("floor-is-latest-boundary-not-after", And(r.us == F.us), info=unit)
        elif op == "ceil":
            C = F if _truth(t.us == F.us, sink) else next_dt(unit, F)
            sink.check("ceil-is-earliest-boundary-not-before", And(r.us == C.us), info=unit)
        else:
            Nx = next_dt(unit, F)
            want = F if _truth((t.us - F.us) < (Nx.us - t.us), sink) else Nx
            sink.check("round-is-the-nearer-boundary-later-on-tie", And(r.us == want.us), info=unit)
    elif op == "offset":
        k = cfg["k"]
        if sink.mode == "sym":
            sink.e.assume(is_boundary(unit, t))
        elif not is_boundary(unit, t):
            return
        r = SymDT.lift(iv.offset(t, k))
        sink.check("offset-is-the-kth-following-boundary", And(r.us == next_dt(unit, t, k).us), info="%s k=%d" % (unit, k))
    elif op == "range":
        dt = cfg["dt"]
        span_units = cfg["span"]
        t1 = mk("t1")
        lim = US.get(unit, 31 * DAY_US if unit == "month" else 366 * DAY_US) * span_units
        if sink.mode == "sym":
            sink.e.assume(t1.us >= t.us)
            sink.e.assume(t1.us - t.us <= lim)
        elif not (t.us <= t1.us <= t.us + lim):
            return
        R = [SymDT.lift(x) for x in iv.range(t, t1, dt)]
        # expected list by the OWN stepping: boundaries from the first one >= start, while < stop, number divisible by dt
        F = floor_dt(unit, t)
        c = F if _truth(t.us == F.us, sink) else next_dt(unit, F)
        exp = []
        for j in range(span_units + 3):
            if not _truth(c.us < t1.us, sink):
                break
            if dt == 1 or _truth(unit_number(unit, c) % dt == 0, sink):
                exp.append(c)
            c = next_dt(unit, c)
        else:
            sink.check("oracle-unwinding-sufficient", False, info="more than %d boundaries" % (span_units + 3))
        info = "%s dt=%d returned %d expected %d" % (unit, dt, len(R), len(exp))
        sink.check("range-lists-exactly-the-qualifying-boundaries-in-order", len(R) == len(exp) and And(*[a.us == b.us for a, b in zip(R, exp)]), info=info)


def _truth(c, sink):
    if isinstance(c, bool):
        return c
    return sink.e.branch(c)


def _ite_us(cond, a, b, sink):
    """value a if cond else b: decided by a fork in symbolic mode (keeps terms linear)"""
    if isinstance(cond, bool):
        return a if cond else b
    return a if sink.e.branch(cond) else b


_ite_int = _ite_us


# ------------------------------------------------------------------------------------ drivers
def sym_mk(e, cfg):
    def mk(name):
        return fresh_t(e, name, cfg)

    return mk


def conc_real(inputs, name):
    return _dt.datetime(1970, 1, 1) + _dt.timedelta(
        days=int(inputs[name + "_day"]), hours=int(inputs[name + "_h"]), minutes=int(inputs[name + "_mi"]), seconds=int(inputs[name + "_s"]), milliseconds=int(inputs.get(name + "_sub", 0))
    )


def run(e, cfg):
    e.tz = cfg.get("tz", "utc")
    sink = props.SymSink(e)
    k = cfg["kind"]
    if k == "time-c17":
        c17(sink, cfg, sym_mk(e, cfg), lambda v: v)
    else:
        raise E.ModelGap("unknown time harness %s" % k)


def replay(cfg, inputs, check, info, tag):
    """concrete replay on the real datetime objects; the oracle side still uses the calendar model on concrete
    integers (SymDT with int microseconds) -- no solver involved"""
    import os
    import time as _time

    tzs = None
    if cfg.get("tz", "utc") != "utc" and "tz_off1_quarters" in inputs:
        tzs = posix_tz(inputs, cfg["tz"])
        os.environ["TZ"] = tzs
        _time.tzset()
    sink = props.ConcSink()
    real = {}

    class _E(object):
        pm = {}
        tz = "utc"

    prev = E.ENGINE
    E.ENGINE = None

    def mk(name):
        d = conc_real(inputs, name)
        real[name] = d
        return _RealDT(d)

    try:
        k = cfg["kind"]
        if k == "time-c17":
            c17(sink, cfg, mk, lambda v: v)
    except Exception as ex:
        import traceback

        if not props.exception_from_code_under_test(ex):
            raise  # a bug of the harness/oracle: the replay crashes and the run is reported inconclusive
        return dict(violated=True, detail="%s: %s | inputs %s tz=%s | %s" % (type(ex).__name__, ex, {k: str(v) for k, v in real.items()}, tzs, traceback.format_exc()[-400:]), signature="%s:exception:%s" % (tag, cfg.get("unit")))
    finally:
        E.ENGINE = prev
    return dict(violated=bool(sink.bad), detail="; ".join(sink.bad[:3]) + " | %s inputs %s TZ=%s" % (cfg["name"], {k: str(v) for k, v in real.items()}, tzs), signature="%s:%s:%s" % (tag, cfg.get("unit"), cfg.get("op")))


class _RealDT(_dt.datetime):
    """a REAL datetime (so the real code runs on real objects) that also offers the integer views the oracles use"""

    def __new__(cls, d):
        return _dt.datetime.__new__(cls, d.year, d.month, d.day, d.hour, d.minute, d.second, d.microsecond)

    @property
    def us(self):
        d = self - _dt.datetime(1970, 1, 1)
        return (d.days * 86400 + d.seconds) * 10**6 + d.microseconds

    def _split(self):
        return divmod(self.us, DAY_US)

    def _hms(self):
        return self.hour, self.minute, self.second, self.microsecond


def posix_tz(inputs, model):
    def fmt(q):
        mins = int(q) * 15
        sign = "-" if mins >= 0 else "+"  # POSIX: sign is inverted
        mins = abs(mins)
        return "%s%d:%02d" % (sign, mins // 60, mins % 60)

    o1 = int(inputs["tz_off1_quarters"])
    if model == "const" or "tz_off2_quarters" not in inputs:
        return "<L1>%s" % fmt(o1)
    # one transition: approximate with a POSIX rule is not possible for an arbitrary instant; use the constant
    # offset that applies at the replayed instant (documented limitation of the replay, not of the model)
    return "<L1>%s" % fmt(o1)


def selfcheck():
    """differential test of the calendar model against the real datetime (concrete values): mismatch => inconclusive"""
    import random

    rnd = random.Random(12345)
    bad = 0
    n = 0
    for _ in range(3000):
        y = rnd.randint(1900, 2200)
        m = rnd.randint(1, 12)
        d = rnd.randint(1, 28)
        dt = _dt.datetime(y, m, d, rnd.randint(0, 23), rnd.randint(0, 59), rnd.randint(0, 59), rnd.randint(0, 999) * 1000)
        if rnd.random() < 0.4:
            dt = dt.replace(day=1) + _dt.timedelta(days=rnd.choice([-1, 27, 28, 29, 30, 58, 59, 60]))
        s = SymDT.lift(dt)
        got = (s.year, s.month, s.day, s.hour, s.minute, s.second, s.microsecond, s.isoweekday())
        exp = (dt.year, dt.month, dt.day, dt.hour, dt.minute, dt.second, dt.microsecond, dt.isoweekday())
        n += 1
        if got != exp:
            bad += 1
        r = SymDT.from_fields(dt.year, dt.month, dt.day, dt.hour, dt.minute, dt.second, dt.microsecond)
        if r.us != s.us:
            bad += 1
        k = rnd.randint(-40, 40)
        c = symdt.shift_days(symdt.Civil(dt.year, dt.month, dt.day), k)
        e2 = dt + _dt.timedelta(days=k)
        if (c.y, c.m, c.d) != (e2.year, e2.month, e2.day):
            bad += 1
    out = dict(model_selfcheck_cases=n, model_selfcheck_mismatches=bad)
    if bad:
        out["failed"] = "calendar model disagrees with datetime on %d of %d cases" % (bad, n)
    return out
