"""Shared calendar harness (C14-time, C15, C16, C17, C18): the real labella.d3_time / TimeScale code on symbolic
naive datetimes (vlib.symdt).  Oracles are predicates over the calendar model (field level / epoch
level), independent of the route the code takes."""
import datetime as _dt
import os
from fractions import Fraction

from vlib import engine as E
from vlib import symdt
from vlib.engine import And, Or, Not, Implies
from vlib.symdt import SymDT, DAY_US, day_number, dim

from . import props

US = dict(second=10**6, minute=60 * 10**6, hour=3600 * 10**6, day=DAY_US, week=7 * DAY_US)
UNITS = ["second", "minute", "hour", "day", "week", "month", "year"]
# 1970-01-01 was a Thursday: day number 3 (1970-01-04) is a Sunday
WEEK_PHASE = 3 * DAY_US


def us_of(x):
    return SymDT.lift(x).us if not isinstance(x, SymDT) else x.us


def phase(unit):
    return WEEK_PHASE if unit == "week" else 0


def month_index(dtv):
    """months since year 0 of the civil month containing the instant (materialises the civil date)"""
    return dtv.year * 12 + (dtv.month - 1)


def first_of_month_us(idx_y, idx_m):
    return day_number(idx_y, idx_m, 1) * DAY_US


def norm_month(y, m0):
    """(year, month) for year y and 0-based month offset m0 >= 0 (concrete m0)"""
    return y + m0 // 12, m0 % 12 + 1


def is_boundary(unit, t):
    N, tod = t._split()
    if unit in ("second", "minute", "hour"):
        h, mi, sec, us = t._hms()
        if unit == "second":
            return us == 0
        if unit == "minute":
            return And(us == 0, sec == 0)
        return And(us == 0, sec == 0, mi == 0)
    if unit == "day":
        return tod == 0
    if unit == "week":
        return And(tod == 0, (N + 4) % 7 == 0)
    if unit == "month":
        return And(tod == 0, t.day == 1)
    return And(tod == 0, t.day == 1, t.month == 1)


def floor_dt(unit, t):
    """own floor: the latest boundary not after t, built from t's OWN decomposition (day number, h/m/s, civil fields)"""
    N, tod = t._split()
    if unit in ("second", "minute", "hour"):
        h, mi, sec, us = t._hms()
        if unit == "second":
            return SymDT.from_split(N, ((h * 60 + mi) * 60 + sec) * 10**6)
        if unit == "minute":
            return SymDT.from_split(N, (h * 60 + mi) * 60 * 10**6)
        return SymDT.from_split(N, h * 3600 * 10**6)
    if unit == "day":
        return SymDT.from_split(N, 0)
    if unit == "week":
        return SymDT.from_split(N - (N + 4) % 7, 0)
    if unit == "month":
        return SymDT.from_split(day_number(t.year, t.month, 1), 0, symdt.Civil(t.year, t.month, 1))
    return SymDT.from_split(day_number(t.year, 1, 1), 0, symdt.Civil(t.year, 1, 1))


def next_dt(unit, b, k=1):
    """k-th boundary after the boundary b (a SymDT produced by floor_dt / next_dt or assumed to be a boundary)"""
    if k == 0:
        return b
    if unit in ("second", "minute", "hour"):
        return SymDT(b.us + k * US[unit])
    N, tod = b._split()
    if unit == "day":
        return SymDT.from_split(N + k, tod)
    if unit == "week":
        return SymDT.from_split(N + 7 * k, tod)
    if unit == "month":
        y, m = norm_month(b.year, b.month - 1 + k)
        return SymDT.from_split(day_number(y, m, 1), tod, symdt.Civil(y, m, 1))
    return SymDT.from_split(day_number(b.year + k, 1, 1), tod, symdt.Civil(b.year + k, 1, 1))


def unit_number(unit, t):
    if unit == "second":
        return t.second
    if unit == "minute":
        return t.minute
    if unit == "hour":
        return t.hour
    if unit == "day":
        return t.day - 1
    if unit == "month":
        return t.month - 1
    if unit == "year":
        return t.year
    raise E.ModelGap("week number")


def fresh_t(e, name, cfg):
    return SymDT.fresh(e, name, cfg.get("ylo", 1900), cfg.get("yhi", 2200), 1000, res=cfg.get("res"))


# ------------------------------------------------------------------------------------ C17
def c17_configs(tier, tz="utc"):
    out = []
    ks = {"second": [0, 1, 59, 400], "minute": [0, 1, 61, 400], "hour": [0, 1, 25, 400], "day": [0, 1, 2, 3, 31], "week": [0, 1, 3, 53], "month": [0, 1, 11, 12, 13, 24], "year": [0, 1, 10]}
    for unit in UNITS:
        for op in ("floor", "ceil", "round"):
            out.append(dict(name="c17-%s-%s" % (unit, op), kind="time-c17", unit=unit, op=op, tz=tz, weight=3))
        for k in ks[unit] if tier != "quick" else ks[unit][:4]:
            out.append(dict(name="c17-%s-offset%d" % (unit, k), kind="time-c17", unit=unit, op="offset", k=k, tz=tz, weight=2))
        dts = [1, 2, 3, 5, 12] if tier != "quick" else [1, 2, 5]
        for dt in dts:
            if unit == "week" and dt != 1:
                continue
            out.append(dict(name="c17-%s-range-dt%d" % (unit, dt), kind="time-c17", unit=unit, op="range", dt=dt, span=4 if tier == "quick" else 8, tz=tz, weight=20, shards=4))
    return out


def c17(sink, cfg, mk, num):
    from labella.d3_time import d3_time

    unit, op = cfg["unit"], cfg["op"]
    iv = d3_time[unit]
    t = mk("t")
    if op in ("floor", "ceil", "round"):
        r = SymDT.lift(getattr(iv, op)(t))
        F = floor_dt(unit, t)
        if op == "floor":
            sink.check("floor-is-latest-boundary-not-after", And(r.us == F.us), info=unit)
        elif op == "ceil":
            C = F if _truth(t.us == F.us, sink) else next_dt(unit, F)
            sink.check("ceil-is-earliest-boundary-not-before", And(r.us == C.us), info=unit)
        else:
            Nx = next_dt(unit, F)
            want = F if _truth((t.us - F.us) < (Nx.us - t.us), sink) else Nx
            sink.check("round-is-the-nearer-boundary-later-on-tie", And(r.us == want.us), info=unit)
    elif op == "offset":
        k = cfg["k"]
        if sink.mode == "sym":
            sink.e.assume(is_boundary(unit, t))
        elif not is_boundary(unit, t):
            return
        r = SymDT.lift(iv.offset(t, k))
        sink.check("offset-is-the-kth-following-boundary", And(r.us == next_dt(unit, t, k).us), info="%s k=%d" % (unit, k))
    elif op == "range":
        dt = cfg["dt"]
        span_units = cfg["span"]
        t1 = mk("t1")
        lim = US.get(unit, 31 * DAY_US if unit == "month" else 366 * DAY_US) * span_units
        if sink.mode == "sym":
            sink.e.assume(t1.us >= t.us)
            sink.e.assume(t1.us - t.us <= lim)
        elif not (t.us <= t1.us <= t.us + lim):
            return
        R = [SymDT.lift(x) for x in iv.range(t, t1, dt)]
        # expected list by the OWN stepping: boundaries from the first one >= start, while < stop, number divisible by dt
        F = floor_dt(unit, t)
        c = F if _truth(t.us == F.us, sink) else next_dt(unit, F)
        exp = []
        for j in range(span_units + 3):
            if not _truth(c.us < t1.us, sink):
                break
            if dt == 1 or _truth(unit_number(unit, c) % dt == 0, sink):
                exp.append(c)
            c = next_dt(unit, c)
        else:
            sink.check("oracle-unwinding-sufficient", False, info="more than %d boundaries" % (span_units + 3))
        info = "%s dt=%d returned %d expected %d" % (unit, dt, len(R), len(exp))
        sink.check("range-lists-exactly-the-qualifying-boundaries-in-order", len(R) == len(exp) and And(*[a.us == b.us for a, b in zip(R, exp)]), info=info)


def _truth(c, sink):
    if isinstance(c, bool):
        return c
    return sink.e.branch(c)


def _ite_us(cond, a, b, sink):
    """value a if cond else b: decided by a fork in symbolic mode (keeps terms linear)"""
    if isinstance(cond, bool):
        return a if cond else b
    return a if sink.e.branch(cond) else b


_ite_int = _ite_us


# ------------------------------------------------------------------------------------ drivers
def sym_mk(e, cfg):
    def mk(name):
        return fresh_t(e, name, cfg)

    return mk


def conc_real(inputs, name):
    if name + "_ms" in inputs:
        return _dt.datetime(1970, 1, 1) + _dt.timedelta(milliseconds=int(round(inputs[name + "_ms"])))
    return _dt.datetime(1970, 1, 1) + _dt.timedelta(
        days=int(inputs[name + "_day"]), hours=int(inputs[name + "_h"]), minutes=int(inputs.get(name + "_mi", 0)), seconds=int(inputs.get(name + "_s", 0)), milliseconds=int(inputs.get(name + "_sub", 0))
    )


def run(e, cfg):
    e.tz = cfg.get("tz", "utc")
    if isinstance(e.tz, list):
        e.tz = tuple(e.tz)
    if e.tz != "utc":
        # module-level code of labella (e.g. an EPOCH constant) must run under the modelled zone too
        from vlib import instr

        instr.fresh_import()
    sink = props.SymSink(e)
    k = cfg["kind"]
    if k == "time-c17":
        c17(sink, cfg, sym_mk(e, cfg), lambda v: v)
    elif k == "time-c15":
        c15(sink, cfg, sym_mk(e, cfg), lambda v: v, lambda name, lo, hi: e.real(name, lo, hi))
    elif k == "time-c16":
        c16(sink, cfg, sym_mk(e, cfg), lambda v: v)
    elif k == "time-c14":
        c14t(sink, cfg, sym_mk(e, cfg), lambda v: v)
    elif k == "time-c18pair":
        c18pair(sink, cfg, sym_mk(e, cfg), lambda v: v)
    elif k == "time-c18parse":
        c18parse(sink, cfg, sym_mk(e, cfg), lambda v: v)
    else:
        raise E.ModelGap("unknown time harness %s" % k)


def replay(cfg, inputs, check, info, tag):
    """concrete replay on the real datetime objects; the oracle side still uses the calendar model on concrete
    integers (SymDT with int microseconds) -- no solver involved"""
    import os
    import time as _time

    tzs = os.environ.get("TZ")
    sink = props.ConcSink()
    real = {}

    class _E(object):
        pm = {}
        tz = "utc"

    prev = E.ENGINE
    E.ENGINE = None

    def mk(name):
        d = conc_real(inputs, name)
        real[name] = d
        return _RealDT(d)

    mk.inputs = inputs
    mk.real = real

    try:
        k = cfg["kind"]
        if k == "time-c17":
            c17(sink, cfg, mk, lambda v: v)
        elif k == "time-c15":
            c15(sink, cfg, mk, lambda v: Fraction(v), lambda name, lo, hi: float(inputs[name]))
        elif k == "time-c16":
            c16(sink, cfg, mk, lambda v: Fraction(v))
        elif k == "time-c14":
            c14t(sink, cfg, mk, lambda v: Fraction(v))
        elif k == "time-c18pair":
            c18pair(sink, cfg, mk, lambda v: Fraction(v))
        elif k == "time-c18parse":
            c18parse(sink, cfg, mk, lambda v: Fraction(v))
    except Exception as ex:
        import traceback

        if not props.exception_from_code_under_test(ex):
            raise  # a bug of the harness/oracle: the replay crashes and the run is reported inconclusive
        return dict(violated=True, detail="%s: %s | inputs %s tz=%s | %s" % (type(ex).__name__, ex, {k: str(v) for k, v in real.items()}, tzs, traceback.format_exc()[-400:]), signature="%s:exception:%s" % (tag, cfg.get("unit")))
    finally:
        E.ENGINE = prev
    return dict(violated=bool(sink.bad), detail="; ".join(sink.bad[:3]) + " | %s inputs %s TZ=%s" % (cfg["name"], {k: str(v) for k, v in real.items()}, tzs), signature="%s:%s:%s" % (tag, cfg.get("unit"), cfg.get("op")))


class _RealDT(_dt.datetime):
    """a REAL datetime (so the real code runs on real objects) that also offers the integer views the oracles use"""

    def __new__(cls, d, *a, **k):
        if isinstance(d, _dt.datetime) and not a and not k:
            return _dt.datetime.__new__(cls, d.year, d.month, d.day, d.hour, d.minute, d.second, d.microsecond)
        return _dt.datetime.__new__(cls, d, *a, **k)  # replace(), +, - re-construct through the normal signature

    @property
    def us(self):
        d = self - _dt.datetime(1970, 1, 1)
        return (d.days * 86400 + d.seconds) * 10**6 + d.microseconds

    def _split(self):
        return divmod(self.us, DAY_US)

    def _hms(self):
        return self.hour, self.minute, self.second, self.microsecond


def posix_tz(inputs, model):
    def fmt(q):
        mins = int(q) * 15
        sign = "-" if mins >= 0 else "+"  # POSIX: sign is inverted
        mins = abs(mins)
        return "%s%d:%02d" % (sign, mins // 60, mins % 60)

    o1 = int(inputs["tz_off1_quarters"])
    if model == "const" or "tz_off2_quarters" not in inputs:
        return "<L1>%s" % fmt(o1)
    # one transition: approximate with a POSIX rule is not possible for an arbitrary instant; use the constant
    # offset that applies at the replayed instant (documented limitation of the replay, not of the model)
    return "<L1>%s" % fmt(o1)


def selfcheck():
    """differential test of the calendar model against the real datetime (concrete values): mismatch => inconclusive"""
    import random

    rnd = random.Random(12345)
    bad = 0
    n = 0
    for _ in range(3000):
        y = rnd.randint(1900, 2200)
        m = rnd.randint(1, 12)
        d = rnd.randint(1, 28)
        dt = _dt.datetime(y, m, d, rnd.randint(0, 23), rnd.randint(0, 59), rnd.randint(0, 59), rnd.randint(0, 999) * 1000)
        if rnd.random() < 0.4:
            dt = dt.replace(day=1) + _dt.timedelta(days=rnd.choice([-1, 27, 28, 29, 30, 58, 59, 60]))
        s = SymDT.lift(dt)
        got = (s.year, s.month, s.day, s.hour, s.minute, s.second, s.microsecond, s.isoweekday())
        exp = (dt.year, dt.month, dt.day, dt.hour, dt.minute, dt.second, dt.microsecond, dt.isoweekday())
        n += 1
        if got != exp:
            bad += 1
        r = SymDT.from_fields(dt.year, dt.month, dt.day, dt.hour, dt.minute, dt.second, dt.microsecond)
        if r.us != s.us:
            bad += 1
        k = rnd.randint(-40, 40)
        c = symdt.shift_days(symdt.Civil(dt.year, dt.month, dt.day), k)
        e2 = dt + _dt.timedelta(days=k)
        if (c.y, c.m, c.d) != (e2.year, e2.month, e2.day):
            bad += 1
    out = dict(model_selfcheck_cases=n, model_selfcheck_mismatches=bad)
    if bad:
        out["failed"] = "calendar model disagrees with datetime on %d of %d cases" % (bad, n)
    return out


# ------------------------------------------------------------------------------------ C15
R15 = 10**6


def c15_configs(tier, tz="utc"):
    return [dict(name="c15-%s" % k, kind="time-c15", case=k, tz=tz, weight=5) for k in ("ends", "linear-in-ms", "equal-durations", "monotone", "invert", "range-reset")]


def ms_of(t):
    """milliseconds since the epoch as an exact number, from the instant's own representation"""
    u = t.us
    return u / 1000 if isinstance(u, int) else E.SymReal(E.lin_of(u).scale(Fraction(1, 1000)))


def c15(sink, cfg, mk, num, val):
    from labella.scale import LinearScale, TimeScale

    if sink.mode == "sym" and cfg["case"] != "ends":
        # no calendar operation is involved: the instants are REAL-valued epoch milliseconds (a superset of the ms grid),
        # which keeps the non-linear queries in pure real arithmetic
        lo_ms = (_dt.datetime(1900, 1, 1) - _dt.datetime(1970, 1, 1)).total_seconds() * 1000
        hi_ms = (_dt.datetime(2201, 1, 1) - _dt.datetime(1970, 1, 1)).total_seconds() * 1000
        def mk(name):
            v = sink.e.real(name + "_ms", lo_ms, hi_ms)
            # counter-examples are preferred on the millisecond grid (that is what the concrete replay can represent)
            sink.e.model_hints = list(sink.e.model_hints) + [v == v.__floor__()]
            return SymDT(v * 1000)

    d0, d1 = mk("d0"), mk("d1")
    if sink.mode == "sym":
        sink.e.model_hints = list(sink.e.model_hints) + [Or(d1.us - d0.us >= 10**6, d0.us - d1.us >= 10**6)]
    r0, r1 = val("r0", -R15, R15), val("r1", -R15, R15)
    if sink.mode == "sym":
        sink.e.assume(d0.us != d1.us)
        sink.e.assume(r0 != r1)
    elif d0.us == d1.us or r0 == r1:
        return
    ts = TimeScale().domain([d0, d1]).range([r0, r1])
    case = cfg["case"]
    eq = (lambda u, v: And(u == v)) if sink.mode == "sym" else (lambda u, v: abs(Fraction(u) - Fraction(v)) <= Fraction(1, 10**7) * (1 + abs(Fraction(v)) + abs(Fraction(r0)) + abs(Fraction(r1))))
    if case == "ends":
        sink.check("first-domain-instant-maps-to-first-range-end", eq(num(ts(d0)), num(r0)))
        sink.check("second-domain-instant-maps-to-second-range-end", eq(num(ts(d1)), num(r1)))
        dom = ts.domain()
        sink.check("domain-getter-returns-the-instants", And(SymDT.lift(dom[0]).us == d0.us, SymDT.lift(dom[1]).us == d1.us))
        return
    if case == "range-reset":
        # the caller re-submits the SAME list object after editing it in place, and edits the list the getter returned
        r2 = val("r2", -R15, R15)
        lst = [r0, r1]
        ts.range(lst)
        lst[1] = r2
        ts.range(lst)
        sink.check("range-set-again-with-an-edited-list-takes-effect", And(eq(num(ts(d1)), num(r2)), eq(num(ts(d0)), num(r0))))
        cur_ = ts.range()
        cur_[0] = cur_[0] + 50
        ts.range(cur_)
        sink.check("range-getter-list-edited-and-set-again-takes-effect", And(eq(num(ts(d0)), num(r0) + 50), eq(num(ts(d1)), num(r2))))
        return
    t = mk("t")
    if case == "linear-in-ms":
        L = LinearScale().domain([ms_of(d0), ms_of(d1)]).range([r0, r1])
        sink.check("agrees-with-a-linear-scale-on-epoch-milliseconds", eq(num(ts(t)), num(L(ms_of(t)))))
    elif case == "equal-durations":
        u = mk("u")
        # the same duration delta (>= 0 ms) added to t and to u
        dl = val("delta_ms", 0, 10**9)
        if sink.mode == "sym":
            t2, u2 = SymDT(t.us + dl * 1000), SymDT(u.us + dl * 1000)
        else:
            t2, u2 = t + _dt.timedelta(milliseconds=int(dl)), u + _dt.timedelta(milliseconds=int(dl))
        sink.check("equal-durations-map-to-equal-lengths", eq(num(ts(t2)) - num(ts(t)), num(ts(u2)) - num(ts(u))))
    elif case == "monotone":
        u = mk("u")
        if sink.mode == "sym":
            sink.e.assume(t.us < u.us)
        elif not t.us < u.us:
            return
        st, su = num(ts(t)), num(ts(u))
        up = Or(And(d0.us < d1.us, num(r0) < num(r1)), And(d1.us < d0.us, num(r1) < num(r0)))
        sink.check("later-instants-map-strictly-farther-along-the-range", And(Implies(up, st < su), Implies(Not(up), st > su)))
    elif case == "invert":
        inside = Or(And(d0.us <= t.us, t.us <= d1.us), And(d1.us <= t.us, t.us <= d0.us))
        if sink.mode == "sym":
            sink.e.assume(inside)
        elif not inside:
            return
        back = SymDT.lift(ts.invert(ts(t)))
        diff = back.us - t.us
        sink.check("invert-returns-the-instant-within-a-millisecond", And(diff <= 1000, diff >= -1000))


# ------------------------------------------------------------------------------------ C16 / C14-time
STEPS_MS = [1e3, 5e3, 15e3, 3e4, 6e4, 3e5, 9e5, 18e5, 36e5, 108e5, 216e5, 432e5, 864e5, 1728e5, 6048e5, 2592e6, 7776e6, 31536e6]
SPAN_MAX_MS = 250 * 366 * 86400 * 1000


def span_windows(m):
    """partition of the span range [1 ms, 250 years] at m * (each entry of the code's own step table, read from the module)"""
    from labella import scale as SC

    steps = [float(x) for x in SC.d3_time_scaleSteps]
    edges = [1] + [int(m * s) for s in steps] + [SPAN_MAX_MS]
    return [(edges[i], edges[i + 1]) for i in range(len(edges) - 1) if edges[i] < edges[i + 1]]


SYMBOLIC_WINDOWS = []  # fully symbolic end points: windows 2, 6, 10, 15 were measured beyond 20 minutes on 16 cores; none registered


ANCHORS = ["2021-01-25T00:00:00", "2021-01-31T10:00:00", "2020-02-29T00:00:00", "2020-02-28T23:59:59.999", "1999-12-31T12:30:45.500", "1969-12-31T23:59:58.002", "1900-03-01T00:00:00.001", "2199-06-15T18:00:00"]


def c16_configs(tier, kind="time-c16", tz="utc"):
    """quick: the earlier end point is one of a few concrete calendar anchors (month end, leap day, year end, before the
    epoch, sub-second offsets) and the SPAN is symbolic inside each window; thorough: both end points fully symbolic"""
    out = []
    nwin = len(STEPS_MS) + 1
    short = kind.replace("time-", "")
    if tier == "quick":
        for m in (10, 5):
            for w in range(nwin):
                for ai, a in enumerate(ANCHORS if m == 10 else ANCHORS[:3]):
                    out.append(dict(name="%s-m%d-win%02d-anchor%d" % (short, m, w, ai), kind=kind, m=m, win=w, orient=1 if (ai + w) % 3 else -1, anchor=a, tz=tz, weight=2))
        return out
    for m in [2, 3, 5, 7, 10, 12]:
        for w in range(nwin):
            for ai, a in enumerate(ANCHORS):
                out.append(dict(name="%s-m%d-win%02d-anchor%d" % (short, m, w, ai), kind=kind, m=m, win=w, orient=1 if (ai + w) % 2 else -1, anchor=a, tz=tz, weight=2))
    # both end points fully symbolic (resolution adapted to the window): only the windows measured to finish are registered
    for m, wins in ((10, SYMBOLIC_WINDOWS),):
        for w in wins:
            d = dict(name="%s-m%d-win%02d-symbolic" % (short, m, w), kind=kind, m=m, win=w, orient=1, tz=tz, weight=60, shards=16)
            d["res"] = "ms" if w <= 4 else ("s" if w <= 9 else ("min" if w <= 14 else "h"))
            out.append(d)
    return out


def c16_history_configs(tier):
    """the SAME TimeScale object: domain A, ticks(m), domain B of a very different span, ticks(m) again"""
    out = []
    pairs = [(17, 14), (11, 17), (3, 16), (16, 2)] if tier == "quick" else [(a, b) for a in (2, 8, 11, 14, 16, 17) for b in (1, 5, 9, 14, 16, 17) if a != b]
    for i, (w1, w2) in enumerate(pairs):
        out.append(dict(name="c16-history-m10-win%02d-then-win%02d" % (w1, w2), kind="time-c16", m=10, win=w2, prev_win=w1, orient=1 if i % 2 else -1, anchor=ANCHORS[i % len(ANCHORS)], prev_anchor=ANCHORS[(i + 3) % len(ANCHORS)], tz="utc", weight=4))
    return out


def _domain_for(sink, cfg, mk):
    m, w = cfg["m"], cfg["win"]
    lo, hi = span_windows(m)[w]
    if cfg.get("span_cap_ms"):
        hi = min(hi, int(cfg["span_cap_ms"]))
    if cfg.get("anchor"):
        a0 = _dt.datetime.fromisoformat(cfg["anchor"])
        if sink.mode == "sym":
            a = SymDT.lift(a0)
            sp = sink.e.integer("span_ms", lo, hi - 1)
            b = SymDT(a.us + sp * 1000)
        else:
            a = _RealDT(a0)
            b = _RealDT(a0 + _dt.timedelta(milliseconds=int(mk.inputs["span_ms"])))
            mk.real.update(t0=a, t1=b)
        return a, b
    a, b = mk("t0"), mk("t1")
    span_us = b.us - a.us
    if sink.mode == "sym":
        sink.e.assume(span_us >= lo * 1000)
        sink.e.assume(span_us < hi * 1000)
    elif not (lo * 1000 <= span_us < hi * 1000):
        return None
    return a, b


def aligned(unit, x):
    return is_boundary(unit, x)


def c16(sink, cfg, mk, num):
    from labella.scale import TimeScale

    dom = _domain_for(sink, cfg, mk)
    if dom is None:
        return
    a, b = dom
    m = cfg["m"]
    ts = TimeScale()
    if cfg.get("prev_win") is not None:
        # history on one scale object: an earlier domain of a very different span was ticked with the same count
        lo0, hi0 = span_windows(m)[cfg["prev_win"]]
        p0 = _dt.datetime.fromisoformat(cfg["prev_anchor"])
        p1 = p0 + _dt.timedelta(milliseconds=(lo0 + hi0) // 2)
        ts.domain([p0, p1])
        ts.ticks(m)
    ts.domain([a, b] if cfg["orient"] > 0 else [b, a])
    try:
        T = ts.ticks(m)
    except Exception as ex:
        if sink.mode == "conc" and not props.exception_from_code_under_test(ex):
            raise
        sink.check("ticks-never-raises", False, info="%s: %s" % (type(ex).__name__, str(ex)[:120]))
        return
    T = [SymDT.lift(x) for x in T]
    n = len(T)
    info = "m=%d window=%d ticks=%d" % (m, cfg["win"], n)
    span_ms_lo = span_windows(m)[cfg["win"]][0]
    sink.check("strictly-increasing", And(*[x.us < y.us for x, y in zip(T, T[1:])]), info=info)
    gaps = [y.us - x.us for x, y in zip(T, T[1:])]
    sub_second = And(*[g < 10**6 for g in gaps]) if gaps else True
    slack = 1000
    sink.check("inside-the-domain", And(*[And(x.us >= a.us - slack, x.us <= b.us + slack) for x in T]), info=info)
    sink.check("inside-the-domain-exactly-unless-sub-second", Implies(Not(sub_second), And(*[And(x.us >= a.us, x.us <= b.us) for x in T])), info=info)
    # count
    span_us = b.us - a.us
    short = span_us < m * 1000
    cnt_ok = And(n >= Fraction(m) / Fraction(12, 5) - 1, n <= Fraction(12, 5) * m + 1)
    one_per_ms = And(span_us == (n - 1) * 1000) if n >= 1 else False
    sink.check("tick-count-within-bounds", Or(And(Not(short), cnt_ok), And(short, Or(one_per_ms, cnt_ok))), info=info)
    # gaps within a factor two
    if len(gaps) >= 2:
        sink.check("consecutive-gaps-within-a-factor-of-two", And(*[g1 <= 2 * g2 for g1 in gaps for g2 in gaps]), info=info)
    # calendar alignment no finer than the spacing implies
    if gaps:
        gmin_ge = lambda v: And(*[g >= v for g in gaps])
        for unit, thr in (("second", 10**6), ("minute", 60 * 10**6), ("hour", 3600 * 10**6), ("day", DAY_US), ("month", 28 * DAY_US), ("year", 365 * DAY_US)):
            c = gmin_ge(thr)
            if c is False:
                break
            if c is not True and sink.mode == "sym":
                if not sink.e.branch(c):
                    break
            sink.check("ticks-aligned-to-%s-boundaries-when-spacing-is-that-coarse" % unit, And(*[aligned(unit, x) for x in T]), info=info)


def nice_configs(tier):
    out = []
    nwin = len(STEPS_MS) + 1
    for c in c16_configs(tier, kind="time-c14"):
        if tier == "quick" and c["m"] != 10 and c["win"] % 3:
            continue
        # nice() walks down/up to the next non-skipped boundary one unit at a time: cap the windows whose step can be
        # hundreds of units (millisecond ticks, multi-year ticks); the thorough tier adds m = 5 on every window and anchor
        # (larger caps were measured beyond 25 minutes)
        if tier != "quick" and c["m"] not in (5, 10):
            continue
        if c["win"] == 0:
            c["span_cap_ms"] = 20 * c["m"]
        if c["win"] == nwin - 1:
            c["span_cap_ms"] = 40 * 366 * 86400 * 1000
        out.append(c)
    return out


def c14t(sink, cfg, mk, num):
    from labella.scale import TimeScale

    dom = _domain_for(sink, cfg, mk)
    if dom is None:
        return
    a, b = dom
    m = cfg["m"]
    asc = cfg["orient"] > 0
    ts = TimeScale().domain([a, b] if asc else [b, a])
    try:
        T = [SymDT.lift(x) for x in ts.ticks(m)]
        if m == 10:
            ts.nice()
        else:
            ts.nice(m)
        nd = [SymDT.lift(x) for x in ts.domain()]
    except Exception as ex:
        if sink.mode == "conc" and not props.exception_from_code_under_test(ex):
            raise
        sink.check("nice-never-raises", False, info="%s: %s" % (type(ex).__name__, str(ex)[:120]))
        return
    n_lo, n_hi = (nd[0], nd[1]) if asc else (nd[1], nd[0])
    info = "m=%d window=%d ticks(original)=%d" % (m, cfg["win"], len(T))
    sink.check("orientation-kept", And(nd[0].us < nd[1].us) if asc else And(nd[0].us > nd[1].us), info=info)
    sink.check("never-moves-an-end-inward", And(n_lo.us <= a.us, n_hi.us >= b.us), info=info)
    gaps = [y.us - x.us for x, y in zip(T, T[1:])]
    if gaps:
        # less than two tick steps (of the original domain's ticks): 2 * the largest gap bounds it from above
        sink.check("moves-outward-by-less-than-two-tick-steps", And(Or(*[a.us - n_lo.us < 2 * g for g in gaps]), Or(*[n_hi.us - b.us < 2 * g for g in gaps])), info=info)
        gmin_ge = lambda v: And(*[g >= v for g in gaps])
        for unit, thr in (("second", 10**6), ("minute", 60 * 10**6), ("hour", 3600 * 10**6), ("day", DAY_US), ("month", 28 * DAY_US), ("year", 365 * DAY_US)):
            c = gmin_ge(thr)
            if c is False:
                break
            if c is not True and sink.mode == "sym":
                if not sink.e.branch(c):
                    break
            sink.check("new-end-points-aligned-to-%s-boundaries" % unit, And(aligned(unit, n_lo), aligned(unit, n_hi)), info=info)
        else:
            pass
        # equally spaced ticks (every unit up to weeks): the new ends sit on the tick grid itself (the first tick or one step
        # before it, the last tick or one step after it), to within a millisecond -- "aligned at least as coarsely as the ticks"
        # whenever the ticks are equally spaced AND the unit's numbering cannot restart unevenly inside the span: sub-day steps
        # (5/15/30 s, 5/15/30 min, 3/6/12 h divide their cycle) and whole weeks; 2-day ticks restart at month ends (d3's rule)
        sub = And(And(*[g == gaps[0] for g in gaps]), Or(gaps[0] < DAY_US, gaps[0] == 7 * DAY_US))
        g0 = gaps[0]
        on_grid = And(
            Or(*[And(n_lo.us - (T[0].us - k * g0) <= 1000, (T[0].us - k * g0) - n_lo.us <= 1000) for k in (0, 1)]),
            Or(*[And(n_hi.us - (T[-1].us + k * g0) <= 1000, (T[-1].us + k * g0) - n_hi.us <= 1000) for k in (0, 1)]),
        )
        sink.check("equally-spaced-ticks-put-the-new-ends-on-the-tick-grid", Implies(sub, on_grid), info=info)


def max_of(xs, sink):
    m = xs[0]
    for x in xs[1:]:
        c = x > m
        if c is True or (c is not False and (sink.e.branch(c) if sink.mode == "sym" else bool(c))):
            m = x
    return m


# ------------------------------------------------------------------------------------ C18
REAL_TZ = {
    # name: (transition instant UTC, offset before [min], offset after [min])  -- from the system tzdata, year 2021
    "America/New_York#spring": ("America/New_York", "2021-03-14T07:00:00", -300, -240),
    "America/New_York#fall": ("America/New_York", "2021-11-07T06:00:00", -240, -300),
    "Australia/Lord_Howe#apr": ("Australia/Lord_Howe", "2021-04-03T15:00:00", 660, 630),
    "Pacific/Chatham#sep": ("Pacific/Chatham", "2021-09-25T14:00:00", 765, 825),
}


def tz_models():
    out = [("const", dict(tz="const", tzname="<from-model>"))]
    for k, (name, tr, o1, o2) in REAL_TZ.items():
        tr_us = int((_dt.datetime.fromisoformat(tr) - _dt.datetime(1970, 1, 1)).total_seconds()) * 10**6
        out.append((k.replace("/", "_"), dict(tz=["real", tr_us, o1 * 60 * 10**6, o2 * 60 * 10**6], tzname=name, ylo=2021, yhi=2021)))
    return out


def c18_configs(tier):
    out = []
    base = []
    for c in c17_configs(tier):
        if c["op"] == "range" and (c.get("dt", 1) != 1 or tier == "quick" and c["unit"] not in ("hour", "week")):
            continue
        if c["op"] == "offset" and c.get("k") not in (1,):
            continue
        base.append(c)
    base += c15_configs(tier)
    anchors_tz = ["2021-03-10T12:00:00", "2021-11-03T09:30:00", "2021-04-01T00:00:00", "2021-09-20T06:00:00", "2021-03-12T20:00:00"]
    for kind, fn in (("time-c16", c16_configs), ("time-c14", lambda t: nice_configs(t))):
        for c in fn("quick"):
            if c["m"] != 10 or c.get("anchor") != ANCHORS[0]:
                continue
            if not (7 <= c["win"] <= 16):
                continue
            for ai, a in enumerate(anchors_tz):
                d = dict(c)
                d["anchor"] = a
                d["name"] = c["name"].replace("anchor0", "tzanchor%d" % ai)
                base.append(d)
    for dt in (2, 3):
        base.append(dict(name="c18pair-week-range-dt%d" % dt, kind="time-c18pair", unit="week", dt=dt, span=5, weight=40, ylo=2021, yhi=2021, res="h", pair=True))
    base.append(dict(name="c18parse-datum-time", kind="time-c18parse", unit="parse", op="parse_items", weight=3, res="min"))
    for tag, upd in tz_models():
        for c in base:
            if c["kind"] in ("time-c16", "time-c14") and tag == "const" and c["name"].endswith(("tzanchor1", "tzanchor2", "tzanchor3", "tzanchor4")):
                continue
            if c["kind"] in ("time-c16", "time-c14") and tag != "const":
                # each real transition with the anchor that precedes it
                want = {"America_New_York#spring": "tzanchor0", "America_New_York#fall": "tzanchor1", "Australia_Lord_Howe#apr": "tzanchor2", "Pacific_Chatham#sep": "tzanchor3"}[tag]
                if not (c["name"].endswith(want) or (tag == "America_New_York#spring" and c["name"].endswith("tzanchor4"))):
                    continue
            d = dict(c)
            d.update(upd)
            d["name"] = "tz-%s-%s" % (tag, c["name"])
            d.pop("shards", None)
            if c.get("pair"):
                d["shards"] = 8
            out.append(d)
    return out


def c18parse(sink, cfg, mk, num):
    """the time of a datum survives Timeline.parse_items exactly as supplied (a naive wall-clock value), whatever the local zone:
    the entry point of every exported timeline; a datetime, and a date promoted to midnight"""
    from labella.timeline import Timeline

    t = mk("t")
    tl = object.__new__(Timeline)
    tl.options = {"latex": {"fontsize": "11pt", "preamble": "", "latexmkOptions": ""}}
    tl.textFn = lambda d: None
    d = {"time": t, "width": 50}
    items = tl.parse_items([d])
    got = items[0].time
    us = lambda x: x.us if hasattr(x, "us") else _RealDT(x).us
    sink.check("datum-time-kept-as-supplied", And(us(got) == us(t)), info="parse_items")
    got2 = d["time"]
    sink.check("datum-dict-time-kept-as-supplied", And(us(got2) == us(t)), info="parse_items")


def c18pair(sink, cfg, mk, num):
    """the same computation under the modelled zone and under UTC must agree (used where no zone-independent oracle is
    stated: week ranges with a step, whose week-of-year numbering is d3's own convention)"""
    from vlib import instr

    e = sink.e if sink.mode == "sym" else None
    unit, dt = cfg["unit"], cfg["dt"]
    t, t1 = mk("t"), mk("t1")
    lim = US[unit] * cfg["span"]
    if sink.mode == "sym":
        e.assume(t1.us >= t.us)
        e.assume(t1.us - t.us <= lim)
    elif not (t.us <= t1.us <= t.us + lim):
        return

    def once():
        from labella.d3_time import d3_time

        return [SymDT.lift(x) for x in d3_time[unit].range(t, t1, dt)]

    A = once()
    if sink.mode == "sym":
        saved = e.tz
        e.tz = "utc"
        instr.fresh_import()
        B = once()
        e.tz = saved
        instr.fresh_import()
        sink.check("same-result-as-under-UTC", len(A) == len(B) and And(*[a.us == b.us for a, b in zip(A, B)]), info="%s range step %d: %d vs %d members" % (unit, dt, len(A), len(B)))
    else:
        # concrete replay: compare with a subprocess running under TZ=UTC
        import json
        import subprocess
        import sys

        code = "import datetime as D, json\nfrom labella.d3_time import d3_time\nt=D.datetime.fromisoformat(%r); t1=D.datetime.fromisoformat(%r)\nprint(json.dumps([x.isoformat() for x in d3_time[%r].range(t, t1, %d)]))" % (t.isoformat(), t1.isoformat(), unit, dt)
        env = dict(os.environ)
        env["TZ"] = "UTC"
        env["PYTHONPATH"] = os.environ.get("VERIF_REPO", "/repo")
        r = subprocess.run([sys.executable, "-c", code], capture_output=True, text=True, env=env, timeout=120)
        B = json.loads(r.stdout.strip().splitlines()[-1])
        sink.check("same-result-as-under-UTC", [a.isoformat() for a in (x if isinstance(x, _dt.datetime) else x for x in d3_time_range_real(unit, t, t1, dt))] == B, info="%s range step %d under TZ=%s vs UTC %s" % (unit, dt, os.environ.get("TZ"), B[:3]))


def d3_time_range_real(unit, t, t1, dt):
    from labella.d3_time import d3_time

    return d3_time[unit].range(t, t1, dt)
