"""Parsers for exported timelines whose printed numbers may be hole tokens (@Hk@) or calendar text tokens (@Tk@).
Both back-ends are reduced to one picture description:
  dict(axis=(kind, tok), ticks=[(pos_tok, text)], links=[[('M'|'C'|'L', [(x,y), ...]), ...]], boxes=[(ox, oy, w, h, text)],
       dots=[(axis_coord_tok, other_tok_or_None)], colors=dict(dot=[...], link=[...], bg=[...], text=[...], border=[...]))
"""
import re
from fractions import Fraction
from xml.etree import ElementTree

from vlib import engine as E
from vlib.engine import And, Or

NUM = r"(@H\d+@|-?\d+(?:\.\d+)?(?:[eE][-+]?\d+)?)"


class ParseError(Exception):
    pass


def _cls(el):
    return el.get("class")


def parse_svg(text):
    root = ElementTree.fromstring(text)
    main = None
    for g in root.iter("g"):
        if _cls(g) == "main-layer":
            main = g
    if main is None:
        raise ParseError("no main layer")
    out = dict(axis=None, ticks=[], links=[], boxes=[], dots=[], colors=dict(dot=[], link=[], bg=[], text=[], border=[]), main_transform=main.get("transform"))
    for line in main.iter("line"):
        if _cls(line) == "timeline":
            if line.get("x2") is not None:
                out["axis"] = ("x", line.get("x2"))
            else:
                out["axis"] = ("y", line.get("y2"))
    for g in main.iter("g"):
        c = _cls(g)
        if c == "tick":
            m = re.fullmatch(r"translate\(%s, %s\)" % (NUM, NUM), g.get("transform"))
            if not m:
                raise ParseError("tick transform %r" % g.get("transform"))
            t = g.find("text")
            out["ticks"].append(((m.group(1), m.group(2)), t.text if t is not None else None))
        elif c == "label-g":
            m = re.fullmatch(r"translate\(%s, %s\)" % (NUM, NUM), g.get("transform"))
            if not m:
                raise ParseError("label transform %r" % g.get("transform"))
            r = g.find("rect")
            t = g.find("text")
            out["boxes"].append((m.group(1), m.group(2), r.get("width"), r.get("height"), t.text if t is not None else None))
            st = r.get("style")
            out["colors"]["bg"].append(_rgb(re.search(r"fill:\s*(rgb\([^)]*\))", st)))
            mb = re.search(r"stroke:\s*(rgb\([^)]*\))", st)
            out["colors"]["border"].append(_rgb(mb) if mb else None)
            out["colors"]["text"].append(_rgb(re.search(r"fill:\s*(rgb\([^)]*\))", t.get("style"))) if t is not None else None)
    for p in main.iter("path"):
        if _cls(p) == "link":
            out["links"].append(parse_path(p.get("d")))
            out["colors"]["link"].append(_rgb(re.search(r"stroke:\s*(rgb\([^)]*\))", p.get("style"))))
    for c in main.iter("circle"):
        if _cls(c) == "dot":
            out["dots"].append((c.get("cx"), c.get("cy")))
            out["colors"]["dot"].append(_rgb(re.search(r"fill:\s*(rgb\([^)]*\))", c.get("style"))))
    return out


def _rgb(m):
    if not m:
        return None
    return tuple(int(x) for x in re.findall(r"\d+", m.group(1)))


def parse_path(d):
    toks = d.split(" ")
    i = 0
    segs = []
    while i < len(toks):
        op = toks[i]
        k = {"M": 2, "L": 2, "C": 6}.get(op)
        if k is None:
            raise ParseError("path op %r" % op)
        nums = toks[i + 1 : i + 1 + k]
        segs.append((op, [(nums[j], nums[j + 1]) for j in range(0, k, 2)]))
        i += 1 + k
    return segs


def parse_tikz(text):
    out = dict(axis=None, ticks=[], links=[], boxes=[], dots=[], colors=dict(dot=[], link=[], bg=[], text=[], border=[]), texts={}, main_shift=None)
    cols = {}
    for m in re.finditer(r"\\definecolor\{(\w+?)Color([A-Z]+)\}\{HTML\}\{(\w+)\}", text):
        cols.setdefault(m.group(1), {})[m.group(2)] = m.group(3)
    for m in re.finditer(r"\\def\\text([A-Z]+)\{(.*)\}", text):
        out["texts"][m.group(1)] = m.group(2)
    body = text[text.index("% main layer") :]
    m = re.search(r"%% main layer\n\\begin\{scope\}\[shift=\{\(%s, %s\)\}\]" % (NUM, NUM), body)
    out["main_shift"] = (m.group(1), m.group(2)) if m else None
    m = re.search(r"%% axis\n\\begin\{scope\}\n\\draw\[[^\]]*\] \(0, 0\) -- \(%s, %s\);" % (NUM, NUM), body)
    if not m:
        raise ParseError("axis line")
    out["axis"] = ("x", m.group(1)) if m.group(2) == "0" else ("y", m.group(2))
    sec = lambda a, b: body[body.index(a) : body.index(b)] if a in body and b in body else ""
    ax = sec("% axis layer", "% link layer")
    for m in re.finditer(r"\\begin\{scope\}\[shift=\{\(%s, %s\)\}\]\n\\draw\[[^\]]*\] \([^)]*\) -- \([^)]*\)\nnode\[anchor=\w+\] \{(.*)\};" % (NUM, NUM), ax):
        out["ticks"].append(((m.group(1), m.group(2)), m.group(3)))
    lk = sec("% link layer", "% label layer")
    lines = lk.split("\n")
    cur_name, cur = None, None
    i = 0
    while i < len(lines):
        line = lines[i]
        m = re.match(r"\\draw\[color=linkColor([A-Z]+), [^\]]*\] \(%s, %s\) (\.\. controls|--)(.*)" % (NUM, NUM), line)
        if not m:
            i += 1
            continue
        name, sx, sy, kind, rest = m.groups()
        if name != cur_name:
            cur_name, cur = name, [("M", [(sx, sy)])]
            out["links"].append(cur)
            out["colors"]["link"].append(cols.get("link", {}).get(name))
        else:
            cur.append(("J", [(sx, sy)]))  # a new \\draw must start where the previous one ended (checked by the oracle)
        if kind == "--":
            mm = re.match(r" \(%s, %s\);" % (NUM, NUM), rest)
            if not mm:
                raise ParseError("tikz line segment %r" % line)
            cur.append(("L", [(mm.group(1), mm.group(2))]))
            i += 1
        else:
            mm = re.match(r"\(%s, %s\) and \(%s, %s\) \.\. \(%s, %s\);" % (NUM, NUM, NUM, NUM, NUM, NUM), lines[i + 1]) if i + 1 < len(lines) else None
            if not mm:
                raise ParseError("tikz curve %r" % line)
            g = mm.groups()
            cur.append(("C", [(g[0], g[1]), (g[2], g[3]), (g[4], g[5])]))
            i += 2
    lb = sec("% label layer", "% dots")
    for m in re.finditer(r"\\begin\{scope\}\[shift=\{\(%s, %s\)\}\]\n\\(fill|draw)\[([^\]]*)\]\n\(0, 0\) rectangle \(%s, %s\) node\[[^\]]*text=labelTextColor([A-Z]+)\] \{\\strut (.*)\};" % (NUM, NUM, NUM, NUM), lb):
        ox, oy, kind, optstr, w, h, name, tx = m.groups()
        txt = None
        mt = re.fullmatch(r"\\text([A-Z]+)", tx.strip())
        if mt:
            txt = ("macro", mt.group(1), out["texts"].get(mt.group(1)))
        out["boxes"].append((ox, oy, w, h, txt))
        out["colors"]["bg"].append(cols.get("labelBg", {}).get(name))
        out["colors"]["text"].append(cols.get("labelText", {}).get(name))
        mb = re.search(r"borderColor([A-Z]+)", optstr)
        out["colors"]["border"].append(cols.get("border", {}).get(mb.group(1)) if mb else None)
    dt = body[body.index("% dots") :]
    for m in re.finditer(r"fill=dotColor([A-Z]+)\] at \(%s, %s\) \{\};" % (NUM, NUM), dt):
        name, x, y = m.groups()
        out["dots"].append((x, y))
        out["colors"]["dot"].append(cols.get("dot", {}).get(name))
    return out


# ----------------------------------------------------------------------------------------
class Vals(object):
    """turns printed tokens into numbers: proxies for holes (printed value modelled by the conversion's contract),
    Fractions for literal decimals"""

    def __init__(self, e):
        self.e = e
        self.cache = {}

    def __call__(self, tok):
        if tok is None:
            return None
        if tok in self.cache:
            return self.cache[tok]
        if tok.startswith("@H"):
            x, conv = self.e.holes[tok]
            v = self.printed(x, conv)
        else:
            v = Fraction(tok)
        self.cache[tok] = v
        return v

    def printed(self, x, conv):
        e = self.e
        if isinstance(x, E.SymFrac):
            x = x.mat()
        if conv in ("str",):
            return x
        if conv in ("%i", "%d"):
            return x.__trunc__() if isinstance(x, E.SymReal) else x
        m = re.fullmatch(r"%?\.?(\d*)f", conv)
        if m:
            nd = int(m.group(1)) if m.group(1) else 6
            if isinstance(x, E.SymInt):
                return x
            tol = Fraction(1, 2 * 10**nd)
            p = e.free_reals(["printed%d" % len(e.zvars)])[0]
            e.assume(And(p - x <= tol, x - p <= tol))
            return p
        raise E.ModelGap("conversion %r" % conv)

    def conv(self, tok):
        return self.e.holes[tok][1] if tok.startswith("@H") else None


class ConcVals(object):
    def __call__(self, tok):
        return None if tok is None else Fraction(tok)

    def conv(self, tok):
        return None
