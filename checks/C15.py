"""C15 -- the time scale is affine in elapsed time and invertible."""
from . import timeh

PROPERTY = "C15"
ENGINE_OPTS = dict(nl_mode="exact", timeout_ms=60000)
EXPLANATION = (
    "Bounded symbolic execution of the real TimeScale (domain/range/__call__/invert, dt2milli/milli2dt, the inner LinearScale and its "
    "kernels) on symbolic naive datetimes (ms resolution, 1900-2200, either order) and a symbolic non-degenerate range; products/quotients "
    "exact (z3 NRA). z3 proves: the two domain instants map to the two range ends and domain() returns them; the mapping equals a LinearScale "
    "applied to the instants' epoch milliseconds (computed from the model's own representation); adding the same duration to two instants "
    "changes the image by the same amount; later instants map strictly farther along the range (sign by orientation); for an instant inside "
    "the domain invert(scale(t)) differs from t by at most 1 ms (timedelta's rounding to microseconds modelled as round-half-even)."
)
BOUNDS = {"quick": dict(instants="ms resolution 1900-2200, either order", range="r0 != r1 in [-1e6,1e6]", duration="0..1e9 ms"), "thorough": dict(same="as quick")}
OUTSIDE = ["float error of extrapolation (exact reals here)"]
ASSUMPTIONS = ["datetime/timedelta modelled by vlib.symdt", "floats as exact reals"]


def configs(tier):
    return timeh.c15_configs(tier)


def precheck(tier):
    return timeh.selfcheck()


def run(e, cfg):
    return timeh.run(e, cfg)


def replay(cfg, inputs, check, info):
    return timeh.replay(cfg, inputs, check, info, "C15")
