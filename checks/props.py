"""Property oracles shared by the layer harness and the Force harness, written once for both
modes: symbolic (numbers are engine proxies, `sink.check` queries z3 for the whole path region)
and concrete (numbers are Fractions taken from a replayed real run, `sink.check` evaluates)."""
from fractions import Fraction

from vlib import engine as E
from vlib.engine import And, Or, Not, Implies

EPS = Fraction(1, 10**6)
# bounds are SOFT walls of weight 1e10 (removeOverlap.py): n unit-weight items whose targets lie up to 2e4 away
# (the value box) displace a wall by at most n * 2e4 / 1e10 <= 8e-6.  EPS_WALL absorbs that code constant.
EPS_WALL = Fraction(1, 10**4)
HALF = Fraction(1, 2)
TOL_OPT = Fraction(1, 2) + Fraction(1, 100)


class SymSink(object):
    mode = "sym"

    def __init__(self, e):
        self.e = e

    def check(self, name, prop, assumptions=(), info=None):
        return self.e.check(name, prop, assumptions=assumptions, info=info)

    def note(self, key):
        d = self.e.stats.__dict__
        d[key] = d.get(key, 0) + 1


class ConcSink(object):
    mode = "conc"

    def __init__(self):
        self.bad = []

    def check(self, name, prop, assumptions=(), info=None):
        a = And(*assumptions) if assumptions else True
        if a is not True and a is not False:
            raise TypeError("symbolic value in concrete replay")
        if a is False:
            return "unreachable"
        if prop is not True and prop is not False:
            raise TypeError("symbolic value in concrete replay")
        if not prop:
            self.bad.append(name + (" [%s]" % info if info else ""))
            return "sat"
        return "unsat"

    def note(self, key):
        pass


def gaps_for(wd, stubs, s, line=2):
    return [(wd[k] + wd[k + 1]) / 2 + (line if (stubs[k] and stubs[k + 1]) else s) for k in range(len(wd) - 1)]


def fits_expr(wd, gaps, lo, hi):
    if lo is None or hi is None:
        return True
    return sum(wd) + sum(g - (a + b) / 2 for g, a, b in zip(gaps, wd, wd[1:])) <= hi - lo


def c01(sink, tg, wd, stubs, cur, s, tag=None):
    """items listed in the order the code laid them out; tg = TRUE targets"""
    m = len(tg)
    gaps = gaps_for(wd, stubs, s)
    sink.check("order-targets", And(*[tg[k] <= tg[k + 1] for k in range(m - 1)]), info=tag)
    props = []
    for i in range(m):
        acc = 0
        for j in range(i + 1, m):
            acc = acc + gaps[j - 1]
            props.append(cur[j] - cur[i] >= acc - 1 - EPS)
    sink.check("separation", And(*props), info=tag)
    sink.check("integer-positions", all(isinstance(c, (int, E.SymInt)) or (isinstance(c, Fraction) and c.denominator == 1) for c in cur), info=tag)


def c03(sink, tg, wd, stubs, cur, s, lo, hi, tag=None):
    m = len(tg)
    gaps = gaps_for(wd, stubs, s)
    if sink.check("order-targets", And(*[tg[k] <= tg[k + 1] for k in range(m - 1)]), info=tag) != "unsat":
        return
    fits = fits_expr(wd, gaps, lo, hi)
    if lo is not None or hi is not None:
        p1 = []
        if lo is not None:
            p1 += [cur[k] - wd[k] / 2 >= lo - HALF - EPS_WALL for k in range(m)]
        if hi is not None:
            p1 += [cur[k] + wd[k] / 2 <= hi + HALF + EPS_WALL for k in range(m)]
        r = sink.check("inside-when-fits", And(*p1), assumptions=[fits], info=tag)
        if r == "unreachable":
            sink.note("fits_unreachable")
    if m > 1:
        sink.check("spill-keeps-span", cur[m - 1] - cur[0] >= sum(gaps) - 1 - EPS, info=tag)


def c02(sink, tg, wd, stubs, cur, s, lo, hi, tag=None):
    m = len(tg)
    gaps = gaps_for(wd, stubs, s)
    if sink.check("order-targets", And(*[tg[k] <= tg[k + 1] for k in range(m - 1)]), info=tag) != "unsat":
        return
    fits = fits_expr(wd, gaps, lo, hi)
    if fits is False:
        sink.note("fits_unreachable")
        return
    if sink.mode == "conc":
        x = exact_qp(tg, gaps, wd, lo, hi)
        if x is None:
            sink.bad.append("ORACLE-FAILURE exact QP found no optimum")
            return
        for k in range(m):
            if abs(cur[k] - x[k]) > TOL_OPT:
                sink.bad.append("kkt-optimal: item %d placed at %s, least-squares optimum %s [%s]" % (k, float(cur[k]), float(x[k]), tag))
    else:
        import z3

        e = sink.e
        xs = [z3.Real("xs%d" % i) for i in range(m)]
        lam = [z3.Real("lam%d" % i) for i in range(m + 1)]
        T = [e.term(x) for x in tg]
        W = [e.term(x) for x in wd]
        G = [e.term(g) for g in gaps]
        cons = []
        sl = [xs[0] - W[0] / 2 - e.term(lo) if lo is not None else None]
        for i in range(m - 1):
            sl.append(xs[i + 1] - xs[i] - G[i])
        sl.append(e.term(hi) - xs[m - 1] - W[m - 1] / 2 if hi is not None else None)
        for k, s_ in enumerate(sl):
            if s_ is None:
                cons.append(lam[k] == 0)
            else:
                cons += [s_ >= 0, lam[k] >= 0, z3.Or(lam[k] == 0, s_ == 0)]
        for i in range(m):
            cons.append(2 * (xs[i] - T[i]) - lam[i] + lam[i + 1] == 0)
        ztol = z3.Q(TOL_OPT.numerator, TOL_OPT.denominator)
        C = [e.term(c) for c in cur]
        good = z3.And(*[z3.And(C[i] - xs[i] <= ztol, xs[i] - C[i] <= ztol) for i in range(m)])
        # the oracle must be satisfiable on this path (else the check would be vacuous)
        if not e.reachable([fits], cons):
            if e.reachable([fits]):
                e.gap("KKT oracle unsatisfiable although the layer fits")
            sink.note("fits_unreachable")
            return
        zfit = [] if fits is True else [E._b(fits).z3(e)]
        e.check_z3("kkt-optimal", zfit + cons, z3.Not(good), info=tag)
    # corollary: enough room around every target => nothing moves (cur = round(target))
    room = And(*[tg[k + 1] - tg[k] >= gaps[k] for k in range(m - 1)])
    if lo is not None:
        room = And(room, tg[0] - wd[0] / 2 >= lo)
    if hi is not None:
        room = And(room, tg[m - 1] + wd[m - 1] / 2 <= hi)
    stay = And(*[And(cur[k] - tg[k] <= HALF + EPS, tg[k] - cur[k] <= HALF + EPS) for k in range(m)])
    sink.check("not-moved-when-room", stay, assumptions=[room], info=tag)


def exact_qp(t, gaps, w, lo, hi):
    """exact optimum of  min sum (x_k - t_k)^2  s.t. x_{k+1}-x_k >= gap_k, x_0 - w_0/2 >= lo, x_last + w_last/2 <= hi
    by enumeration of active sets (Fractions). Returns list or None when infeasible."""
    m = len(t)
    ncon = m + 1
    for mask in range(1 << ncon):
        act = [(mask >> k) & 1 for k in range(ncon)]
        if act[0] and lo is None:
            continue
        if act[m] and hi is None:
            continue
        x = [None] * m
        ok = True
        i = 0
        while i < m:
            j = i
            while j < m - 1 and act[j + 1]:
                j += 1
            off = [Fraction(0)]
            for k in range(i, j):
                off.append(off[-1] + gaps[k])
            fixed = []
            if i == 0 and act[0]:
                fixed.append(lo + w[0] / 2)
            if j == m - 1 and act[m]:
                fixed.append(hi - w[m - 1] / 2 - off[-1])
            if len(fixed) == 2 and fixed[0] != fixed[1]:
                ok = False
                break
            if fixed:
                p = fixed[0]
            else:
                p = sum(t[i + k] - off[k] for k in range(j - i + 1)) / (j - i + 1)
            for k in range(j - i + 1):
                x[i + k] = p + off[k]
            i = j + 1
        if not ok:
            continue
        feas = all(x[k + 1] - x[k] >= gaps[k] for k in range(m - 1))
        if lo is not None:
            feas = feas and x[0] - w[0] / 2 >= lo
        if hi is not None:
            feas = feas and x[m - 1] + w[m - 1] / 2 <= hi
        if not feas:
            continue
        # multipliers: lam_k = 0 for inactive; propagate stationarity 2(x_i - t_i) - lam_i + lam_{i+1} = 0
        lam = [None] * ncon
        for k in range(ncon):
            if not act[k]:
                lam[k] = Fraction(0)
        changed = True
        while changed:
            changed = False
            for i in range(m):
                a, b = lam[i], lam[i + 1]
                r = 2 * (x[i] - t[i])
                if a is None and b is not None:
                    lam[i] = r + b
                    changed = True
                elif b is None and a is not None:
                    lam[i + 1] = a - r
                    changed = True
        if any(l is None for l in lam):
            # everything active (both walls on one block): one free multiplier; feasible iff a non-negative choice exists
            # lam_{i+1} = lam_i - r_i  => lam_k = lam_0 - sum_{i<k} r_i ; need all >= 0
            pre = [Fraction(0)]
            for i in range(m):
                pre.append(pre[-1] + 2 * (x[i] - t[i]))
            lam0 = max(pre)
            lam = [lam0 - p for p in pre]
        if any(2 * (x[i] - t[i]) - lam[i] + lam[i + 1] != 0 for i in range(m)):
            continue
        if any(l < 0 for l in lam):
            continue
        return x
    return None


def exception_from_code_under_test(ex):
    """True when the deepest frame that belongs to either the harness (/verif) or labella is a labella frame"""
    import os
    import traceback

    repo = os.path.realpath(os.environ.get("VERIF_REPO", "/repo"))
    verif = os.path.realpath(os.path.dirname(os.path.dirname(os.path.abspath(__file__))))
    last = None
    for fr, _ in traceback.walk_tb(ex.__traceback__):
        fn = os.path.realpath(fr.f_code.co_filename)
        if fn.startswith(os.path.join(repo, "labella")):
            last = "code"
        elif fn.startswith(verif) and "/.deps/" not in fn:
            last = "harness"
    return last == "code"
