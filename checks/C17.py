"""C17 -- calendar intervals round instants correctly."""
from . import timeh

PROPERTY = "C17"
# results and oracles are linear forms over the same primitive field variables: identical normal forms decide equality
NORMAL_FORM_DECIDES = True
ENGINE_OPTS = dict(nl_mode="exact", timeout_ms=60000)
EXPLANATION = (
    "Bounded symbolic execution of the real labella.d3_time intervals (second, minute, hour, day, week, month, year: floor/ceil/round/offset/"
    "range, the _local/_step/_number lambdas, d3_time_*_local/offset, milli2dt/dt2milli) on symbolic naive datetimes at millisecond "
    "resolution between 1900 and 2200. The datetime family is modelled by vlib.symdt (an instant = integer microseconds since 1970-01-01; civil "
    "fields materialised lazily with the month and February's leap status forked on the path; validity of constructor/replace arguments forked, "
    "ValueError on the invalid side). Oracles are independent predicates: for epoch-aligned units floor(t) = t - ((t - phase) mod period); for "
    "month/year the first day of t's civil month/year via day_number(y, m, 1); ceil = t if t is a boundary else the next boundary; round = the "
    "nearer of floor and next (later on a tie); offset(b, k) = b + k periods, or index arithmetic on (year*12 + month) for months; range = "
    "members are boundaries in [start, stop) with unit number divisible by the step, strictly increasing, and every boundary reached by the "
    "OWN stepping from the first boundary >= start that qualifies is a member (completeness), for stop - start <= 4 (8) units."
)
BOUNDS = {
    "quick": dict(instants="ms resolution, years 1900-2200", offset_k="second/minute/hour {0,1,59|61|25,400}, day {0,1,2,3}, week {0,1,3,53}, month {0,1,11,12}, year {0,1,10}", range="steps {1,2,5}, stop - start <= 4 units"),
    "thorough": dict(offset_k="adds day 31, month 13/24", range="steps {1,2,3,5,12}, stop - start <= 8 units"),
}
OUTSIDE = ["offset k beyond the listed values", "week ranges with step > 1 (week-of-year numbering is d3's own convention; not stated)", "ranges longer than 8 units", "negative offsets"]
ASSUMPTIONS = ["datetime/timedelta modelled by vlib.symdt (self-checked against the real datetime on every run)", "process time zone not consulted by the code (C18 checks that separately)"]


def configs(tier):
    return timeh.c17_configs(tier)


def precheck(tier):
    return timeh.selfcheck()


def run(e, cfg):
    return timeh.run(e, cfg)


def replay(cfg, inputs, check, info):
    return timeh.replay(cfg, inputs, check, info, "C17")
