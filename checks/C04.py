"""C04 -- layering conserves labels, builds complete stub chains, respects capacity, and is reported."""
from fractions import Fraction

from vlib import engine as E
from vlib.engine import And, Or, Not, Implies

from . import forceh, props

PROPERTY = "C04"
EXPLANATION = (
    "Bounded symbolic execution of the real Force.compute / Force.getLayers / Distributor.distribute (algorithm_overlap, algorithm_simple, "
    "none; countIdealOverlaps on the IntervalTree contract model) / Node.createStub/removeStub/isStub and removeOverlap on n labels with "
    "symbolic data positions, widths and label spacing; bounds, density, stub width, algorithm and the call history are concrete per "
    "configuration. vpsc.Solver.solve is replaced by its contract (exact KKT optimum of the QP the real removeOverlap built; decided for the "
    "real solver by C05/C01/C02) so that the path count is that of the layering code. On every path the structural facts are concrete and "
    "checked directly, the numeric ones go to z3: every live label is in exactly one reported layer as a non-stub and its layerIndex agrees; "
    "non-empty layers form a prefix; a label in layer k owns exactly k stubs, one in each nearer layer, chained child/parent consistently, each "
    "with the label's data position and payload and the configured stub width; no other items exist; getLayers() is that layering; no upper or "
    "lower bound => one layer; required width <= density*(hi-lo) => one layer; algorithm overlap and required > budget => every layer's items "
    "+ spacing fit the budget unless it holds <= 2 labels."
)
BOUNDS = {
    "quick": dict(labels="1..3 (4 for algorithm overlap, fresh engine)", value_box="positions in [-20,130], widths in (0,80], spacing in [0,10]", grid="bounds {(0,100),(None,100),(0,None)}, density 0.85, stubWidth 1 (0 and 5 for 2-3 labels on (0,100)); histories fresh/reconf/engine2/stale/subset/interleaved (two engines alive, the first used after the second was configured)"),
    "thorough": dict(labels="1..3 over the whole grid, 4 for overlap/simple on (0,100) (5 labels were measured beyond 25 minutes and are not registered)", grid="bounds {(0,100),(None,100),(0,None),(-30,45),(0,60)}, density {0.85,0.5,1}, stubWidth {0,1,5}, all histories for 2-3 labels"),
}
OUTSIDE = ["roundRobin (returns [] - not in the property's algorithm set)", "more than 4 labels", "zero-width labels (null interval)", "symbolic layer width / density (concrete grid instead)"]
ASSUMPTIONS = [
    "vpsc.Solver.solve replaced by its contract (KKT optimum) - the structure asserted here does not depend on positions except through sort order",
    "intervaltree.IntervalTree modelled by its documented contract (half-open intervals)",
    "floats as exact reals",
]


def configs(tier):
    F = forceh.make_configs
    if tier == "quick":
        return (
            F([1, 2, 3])
            + F([2, 3], algs=("overlap", "simple"), bounds=((0, 100),), stubws=(0, 5))
            + F([4], algs=("overlap",), bounds=((0, 100),), shards=12)
            + F([2], algs=("overlap", "simple"), bounds=((0, 100),), hists=("reconf", "engine2", "stale", "subset", "interleaved"))
            + F([3], algs=("overlap", "simple"), bounds=((0, 100),), hists=("reconf", "engine2", "stale", "subset", "interleaved"), shards=4)
        )
    c = F([1, 2, 3], dens=(0.85, 0.5, 1), stubws=(0, 1, 5), bounds=((0, 100), (None, 100), (0, None), (-30, 45), (0, 60)))
    c += F([4], algs=("overlap", "simple"), bounds=((0, 100),), shards=12)
    c += F([2], bounds=((0, 100), (0, 60)), hists=("twice", "reconf", "renodes", "engine2", "subset", "stale", "interleaved"))
    c += F([3], algs=("overlap", "simple"), bounds=((0, 100),), hists=("twice", "reconf", "renodes", "engine2", "subset", "stale", "interleaved"), shards=4)
    return c


def assert_structure(sink, cfg, sc, num):
    f = sc.force
    L = f.getLayers()
    live = sc.live
    ok = sink.check
    if not isinstance(L, list):
        ok("getLayers-reports-the-layering", False, info="getLayers() = %r" % (L,))
        return
    # non-empty layers form a prefix
    nonempty = [len(x) > 0 for x in L]
    ok("non-empty-layers-contiguous-from-the-axis", all(nonempty[: sum(nonempty)]) , info=str([len(x) for x in L]))
    nl = sum(nonempty)
    allitems = [it for lay in L for it in lay]
    # conservation
    for nd in live:
        occ = [(k, it) for k, lay in enumerate(L) for it in lay if it is nd]
        ok("label-in-exactly-one-layer", len(occ) == 1, info="label %d occurs %d times" % (nd.vid, len(occ)))
        if len(occ) != 1:
            continue
        k = occ[0][0]
        ok("label-is-not-a-stub", not nd.isStub(), info="label %d" % nd.vid)
        li = nd.layerIndex
        ok("layerIndex-agrees", (li == k) is True or (isinstance(li, E.SymNum) and E.And(li == k) is True), info="label %d layerIndex=%r reported layer %d" % (nd.vid, li, k))
        # stub chain: exactly k stubs, one per nearer layer, outward order
        ch = forceh.chain(nd)
        ok("chain-length-equals-layer", len(ch) == k, info="label %d in layer %d has a chain of %d stubs" % (nd.vid, k, len(ch)))
        below = nd
        for d, st in enumerate(ch):
            want_layer = k - 1 - d
            inl = [kk for kk, lay in enumerate(L) for it in lay if it is st]
            ok("stub-in-its-layer", inl == [want_layer], info="label %d stub %d is in layers %s, expected [%d]" % (nd.vid, d, inl, want_layer))
            ok("stub-child-parent-consistent", st.child is below and below.parent is st, info="label %d stub %d" % (nd.vid, d))
            ok("stub-payload", st.data is nd.data, info="label %d stub %d" % (nd.vid, d))
            ok("stub-data-position", And(num(st.idealPos) == num(sc.p[nd.vid])), info="label %d stub %d" % (nd.vid, d))
            ok("stub-width", And(num(st.width) == num(sc.opts["stubWidth"])), info="label %d stub %d width %r" % (nd.vid, d, st.width))
            sl = st.layerIndex
            ok("stub-layerIndex", (sl == want_layer) is True, info="label %d stub %d layerIndex %r" % (nd.vid, d, sl))
            below = st
        if ch:
            ok("chain-ends-at-the-axis", ch[-1].parent is None, info="label %d" % nd.vid)
    # no other items
    legit = []
    for nd in live:
        legit.append(nd)
        legit.extend(forceh.chain(nd))
    ok("no-other-items", all(any(it is g for g in legit) for it in allitems) and len(allitems) == len(set(id(x) for x in allitems)), info="%d items reported, %d legitimate" % (len(allitems), len(legit)))
    # capacity
    s = num(sc.s)
    lo, hi = sc.opts["minPos"], sc.opts["maxPos"]
    alg = sc.opts["algorithm"]
    req = sum(num(sc.w[nd.vid]) for nd in live) + s * (len(live) - 1)
    if lo is None or hi is None or alg == "none":
        ok("one-layer-without-layer-width", nl == 1, info="%d layers" % nl)
        return
    # the budget as the code computes it: ONE float product of two concrete numbers (0.85 * 100 = 85.0 exactly in
    # IEEE arithmetic although Fraction(0.85) * 100 < 85) -- IEEE rounding itself is outside every claim here
    budget = Fraction(sc.opts["density"] * (hi - lo))
    fitsone = req <= budget
    if nl > 1:
        ok("fits-budget-implies-one-layer", Not(fitsone), info="%d layers" % nl)
    if alg == "overlap":
        if nl == 1:
            # a single layer that does not fit is allowed only with <= 2 labels
            ok("overlap-splits-when-over-budget", Or(fitsone, len(live) <= 2), info="1 layer, %d labels" % len(live))
        for k in range(nl):
            lay = L[k]
            nlab = sum(1 for it in lay if not it.isStub())
            tot = sum(num(it.width) for it in lay) + s * (len(lay) - 1)
            ok("layer-within-budget-unless-two-labels", Or(tot <= budget, nlab <= 2), info="layer %d: %d items, %d labels" % (k, len(lay), nlab))


def run(e, cfg):
    forceh.use_contract(cfg.get("vpsc", "contract") == "contract")
    try:
        sc = forceh.scenario(cfg, forceh.sym_val(e))
    finally:
        forceh.use_contract(False)
    assert_structure(props.SymSink(e), cfg, sc, lambda x: x)


def replay(cfg, inputs, check, info):
    sc = forceh.scenario(cfg, forceh.conc_val(inputs))
    sink = props.ConcSink()
    assert_structure(sink, cfg, sc, lambda x: Fraction(x))
    return dict(violated=bool(sink.bad), detail="; ".join(sink.bad[:4]) + " | s=%s %s | %s" % (sc.s, cfg["name"], forceh.describe(sc)), signature="C04:%s:%s" % (cfg["hist"], cfg["alg"]))
