"""Picture oracles on parsed exports (C07, C08, C09).  All geometry is expressed in (along, across) coordinates:
along = the axis direction (x for up/down, y for left/right), across = away from the axis (sign by direction)."""
from fractions import Fraction

from vlib import engine as E
from vlib.engine import And, Or, Not, Implies

PAD = dict(left=2, right=2, top=3, bottom=2)
HEIGHT = Fraction(13)
LEN = 360  # initialWidth/Height 400 minus the default margins 20 + 20
ONE = 1 + Fraction(1, 10**7)  # 1 unit of integer truncation plus the rounding of the other operand's printed decimals


def axis_len(cfg):
    """inner length of the axis: initialWidth - margin.left - margin.right for up/down, the height analogue for left/right"""
    sz = cfg.get("size")
    if not sz:
        return LEN
    W, H, m = sz
    return (W - m["left"] - m["right"]) if cfg["direction"] in ("up", "down") else (H - m["top"] - m["bottom"])


def horiz(d):
    return d in ("up", "down")


def sign(d):
    return 1 if d in ("down", "right") else -1


def close(a, b, tol):
    if not isinstance(a, (E.SymNum, E.SymFrac)) and not isinstance(b, (E.SymNum, E.SymFrac)):
        # concrete replay: printed decimals versus binary floats -- allow the float noise the statement allows
        a, b = Fraction(a), Fraction(b)
        return abs(a - b) <= Fraction(tol) + Fraction(1, 10**9) * (1 + abs(a) + abs(b))
    if tol == 0:
        return And(a == b)
    return And(a - b <= tol, b - a <= tol)


def aa(d, x, y):
    """(along, across) of a point (x, y)"""
    return (x, y) if horiz(d) else (y, x)


def vertices(segs):
    out = []
    ops = []
    for op, pts in segs:
        if op == "J":
            continue
        ops.append(op)
        out.append(pts[-1])
    return ops, out


def datum_index(tl, data, i):
    d = tl.nodes[i].data.data
    for j, x in enumerate(data):
        if x is d:
            return j
    return None


def chain_to_label(nd):
    """stubs from the axis outward, then the label (walks .parent)"""
    out = [nd]
    k = 0
    while out[-1].parent is not None and k < 12:
        out.append(out[-1].parent)
        k += 1
    return list(reversed(out))


def c07(sink, cfg, tl, data, P, V, affine, mode, uni2tex=None, times=None):
    d = cfg["direction"]
    n = len(data)
    ok = sink.check
    ok("one-dot-link-and-box-per-datum", len(P["dots"]) == n and len(P["links"]) == n and len(P["boxes"]) == n, info="dots=%d links=%d boxes=%d data=%d" % (len(P["dots"]), len(P["links"]), len(P["boxes"]), n))
    if not (len(P["dots"]) == n and len(P["links"]) == n and len(P["boxes"]) == n and len(tl.nodes) == n):
        return
    ok("axis-line-spans-the-full-length", P["axis"] == ("x" if horiz(d) else "y", str(axis_len(cfg))), info=str(P["axis"]))
    seen = set()
    pad = cfg.get("padding") or PAD
    pad_along = pad["left"] + pad["right"]
    pad_across = pad["top"] + pad["bottom"]
    for i in range(n):
        j = datum_index(tl, data, i)
        ok("every-drawn-item-belongs-to-one-datum", j is not None and j not in seen, info="item %d" % i)
        if j is None:
            continue
        seen.add(j)
        # the datum's time AS SUPPLIED by the caller (the constructor may rewrite the dict entry)
        want = affine(times[j] if times is not None else data[j]["time"])
        # ---- dot
        dx, dy = P["dots"][i]
        al_tok, ac_tok = (dx, dy) if horiz(d) else (dy, dx)
        ok("dot-lies-on-the-axis-line", ac_tok in (None, "0"), info="item %d across=%r" % (i, ac_tok))
        ok("dot-at-the-affine-image-of-its-time", close(V(al_tok), want, Fraction(1, 10**6)), info="item %d (datum %d)" % (i, j))
        # ---- box
        ox, oy, w, h, txt = P["boxes"][i]
        (b_al, b_ac), (s_al, s_ac) = aa(d, V(ox), V(oy)), aa(d, V(w), V(h))
        wj = data[j]["width"]
        has_text = bool(data[j].get("text"))
        if horiz(d):
            ok("box-size-is-datum-size-plus-padding", And(close(V(w), wj + pad_along, 0), close(V(h), HEIGHT + pad_across, 0)), info="item %d" % i)
        elif not has_text:
            ok("box-size-is-datum-size-plus-padding", And(close(V(h), wj + pad_along, 0), close(V(w), HEIGHT + pad_across, 0)), info="item %d" % i)
        else:
            ok("box-size-is-datum-size-plus-padding", And(Or(close(V(w), wj + pad_along, 0), close(V(w), wj + pad_across, 0)), Or(close(V(h), HEIGHT + pad_along, 0), close(V(h), HEIGHT + pad_across, 0))), info="item %d (text, rotated)" % i)
        tj = data[j].get("text")
        if mode == "svg":
            ok("box-shows-the-datum-text-verbatim", txt == tj, info="item %d shows %r, datum text %r" % (i, txt, tj))
        else:
            shown = None if txt is None else txt[2]
            ok("box-shows-the-datum-text-verbatim", shown == (uni2tex(tj) if tj else None), info="item %d shows %r, datum text %r" % (i, shown, tj))
        # ---- link
        ops, vs = vertices(P["links"][i])
        hops = chain_to_label(tl.nodes[i])
        exp_ops = ["M"]
        for k in range(len(hops)):
            exp_ops.append("C")
            if k < len(hops) - 1:
                exp_ops.append("L")
        ok("link-visits-every-stub-layer-by-layer", ops == exp_ops, info="item %d ops %s, %d hops" % (i, ops, len(hops)))
        if ops != exp_ops:
            continue
        pts = [aa(d, V(x), V(y)) for x, y in vs]
        tol8 = Fraction(1, 10**8)
        ok("link-starts-at-its-own-dot", And(close(pts[0][0], want, tol8), close(pts[0][1], 0, tol8)), info="item %d" % i)
        conj = []
        idx = 1
        prev_ac = 0
        for k, hp in enumerate(hops):
            cur = hp.currentPos
            conj.append(close(pts[idx][0], cur, tol8))
            conj.append((pts[idx][1] - prev_ac) * sign(d) > 0)
            prev_ac = pts[idx][1]
            idx += 1
            if k < len(hops) - 1:
                conj.append(close(pts[idx][0], cur, tol8))
                conj.append((pts[idx][1] - prev_ac) * sign(d) > 0)
                prev_ac = pts[idx][1]
                idx += 1
        ok("link-way-points-sit-at-the-stub-positions-moving-away-from-the-axis", And(*conj), info="item %d" % i)
        # continuity of the TikZ pieces
        cont = []
        last = None
        for op, p in P["links"][i]:
            if op == "J":
                cont.append(And(close(V(p[0][0]), V(last[0]), tol8), close(V(p[0][1]), V(last[1]), tol8)))
            else:
                last = p[-1]
        ok("link-is-continuous", And(*cont) if cont else True, info="item %d" % i)
        end = pts[-1]
        edge = b_ac if sign(d) > 0 else b_ac + s_ac
        ok("link-ends-at-the-middle-of-its-box-edge (along the axis)", close(end[0], b_al + s_al / 2, ONE), info="item %d" % i)
        ok("link-ends-on-the-axis-facing-edge-of-its-box (across)", close(end[1], edge, ONE), info="item %d" % i)


def ticks_c07(sink, cfg, tl, P, V, affine, fmt_ticks):
    """fmt_ticks: list of (tick value, formatted text) from the scale's own ticks()/tickFormat()"""
    d = cfg["direction"]
    if not cfg["ticks"]:
        sink.check("no-ticks-when-tick-display-is-off", len(P["ticks"]) == 0)
        return
    sink.check("one-tick-mark-per-tick", len(P["ticks"]) == len(fmt_ticks), info="%d drawn, %d ticks" % (len(P["ticks"]), len(fmt_ticks)))
    for ((tx, ty), text), (val, ftxt) in zip(P["ticks"], fmt_ticks):
        al, ac = aa(d, V(tx), V(ty))
        sink.check("tick-at-the-affine-image-of-its-value", And(close(al, affine(val), ONE), close(ac, 0, 0)), info="tick %r" % (text,))
        sink.check("tick-carries-the-formatted-value", text == ftxt, info="%r vs %r" % (text, ftxt))


def c08(sink, cfg, tl, P, V):
    d = cfg["direction"]
    n = len(P["boxes"])
    gap = cfg["layergap"]
    R = []
    for ox, oy, w, h, _ in P["boxes"]:
        (a, c), (sa, sc) = aa(d, V(ox), V(oy)), aa(d, V(w), V(h))
        R.append((a, c, sa, sc))
    for i in range(n):
        a, c, sa, sc = R[i]
        if sign(d) > 0:
            sink.check("box-on-the-chosen-side-at-least-the-layer-gap-away", c >= gap - 1, info="box %d" % i)
        else:
            sink.check("box-on-the-chosen-side-at-least-the-layer-gap-away", c + sc <= -(gap - 1), info="box %d" % i)
        for j in range(i + 1, n):
            a2, c2, sa2, sc2 = R[j]
            sink.check("boxes-do-not-intersect", Or(a + sa <= a2, a2 + sa2 <= a, c + sc <= c2, c2 + sc2 <= c), info="boxes %d,%d (layers %s,%s)" % (i, j, tl.nodes[i].layerIndex, tl.nodes[j].layerIndex))
            li, lj = tl.nodes[i].layerIndex, tl.nodes[j].layerIndex
            if li != lj:
                near, far = (R[i], R[j]) if li < lj else (R[j], R[i])
                if sign(d) > 0:
                    sink.check("farther-layer-wholly-beyond-nearer-layer", far[1] >= near[1] + near[3], info="boxes %d,%d" % (i, j))
                else:
                    sink.check("farther-layer-wholly-beyond-nearer-layer", far[1] + far[3] <= near[1], info="boxes %d,%d" % (i, j))


def c09(sink, cfg, Ps, Pt, Vs, Vt, uni2tex):
    ok = sink.check
    ok("same-axis-line", Ps["axis"] == Pt["axis"], info="%s vs %s" % (Ps["axis"], Pt["axis"]))
    for k in ("dots", "links", "boxes", "ticks"):
        ok("same-number-of-%s" % k, len(Ps[k]) == len(Pt[k]), info="%d vs %d" % (len(Ps[k]), len(Pt[k])))
        if len(Ps[k]) != len(Pt[k]):
            return
    tol6 = Fraction(1, 10**6)
    tol8 = Fraction(1, 10**8)
    for i, (a, b) in enumerate(zip(Ps["dots"], Pt["dots"])):
        xs = [(u, v) for u, v in zip(a, b)]
        conj = []
        for u, v in xs:
            u = 0 if u is None else Vs(u)
            v = 0 if v is None else Vt(v)
            conj.append(close(u, v, tol6))
        ok("same-dots", And(*conj), info="dot %d" % i)
    for i, (a, b) in enumerate(zip(Ps["boxes"], Pt["boxes"])):
        ok("same-box-origin-and-size", And(close(Vs(a[0]), Vt(b[0]), ONE), close(Vs(a[1]), Vt(b[1]), ONE), close(Vs(a[2]), Vt(b[2]), 0), close(Vs(a[3]), Vt(b[3]), 0)), info="box %d" % i)
        ts, tt = a[4], (None if b[4] is None else b[4][2])
        ok("same-label-text", (tt == (uni2tex(ts) if ts else None)), info="box %d svg %r tikz %r" % (i, ts, tt))
    for i, (a, b) in enumerate(zip(Ps["links"], Pt["links"])):
        sa = [(op, p) for op, p in a if op != "J"]
        sb = [(op, p) for op, p in b if op != "J"]
        ok("same-link-commands", [o for o, _ in sa] == [o for o, _ in sb], info="link %d: %s vs %s" % (i, [o for o, _ in sa], [o for o, _ in sb]))
        if [o for o, _ in sa] != [o for o, _ in sb]:
            continue
        conj = []
        for (_, pa), (_, pb) in zip(sa, sb):
            for (x1, y1), (x2, y2) in zip(pa, pb):
                conj += [close(Vs(x1), Vt(x2), tol8), close(Vs(y1), Vt(y2), tol8)]
        # every TikZ piece starts where the previous one ended
        last = None
        for op, p in b:
            if op == "J":
                conj += [close(Vt(p[0][0]), Vt(last[0]), tol8), close(Vt(p[0][1]), Vt(last[1]), tol8)]
            else:
                last = p[-1]
        ok("same-link-curve-point-for-point", And(*conj), info="link %d" % i)
    for i, (a, b) in enumerate(zip(Ps["ticks"], Pt["ticks"])):
        ok("same-ticks", And(close(Vs(a[0][0]), Vt(b[0][0]), ONE), close(Vs(a[0][1]), Vt(b[0][1]), ONE)), info="tick %d" % i)
        ok("same-tick-text", a[1] == b[1], info="%r vs %r" % (a[1], b[1]))
    for k in ("dot", "link", "bg", "text", "border"):
        for i, (a, b) in enumerate(zip(Ps["colors"][k], Pt["colors"][k])):
            if a is None and (b is None or k == "text"):
                continue  # (an item without text has no text element in SVG; TikZ still defines its text colour)
            same = a is not None and b is not None and len(b) == 6 and tuple(int(b[q : q + 2], 16) for q in (0, 2, 4)) == tuple(a)
            ok("same-%s-colour" % k, same, info="item %d svg %r tikz %r" % (i, a, b))
