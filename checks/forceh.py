"""Shared Force-level harness (C01-C04, C06): the real Force(options).nodes(...).compute() with the real
Distributor (IntervalTree contract model), removeOverlap and vpsc, on n labels with symbolic data
positions, widths and label spacing.  Bounds / density / stub width / algorithm are concrete per
configuration (density * layerWidth and ceil(required / budget) stay linear that way); a configuration
also fixes a HISTORY of engine calls, so stale node state is produced by the real code itself.
"""
from fractions import Fraction

from vlib import engine as E
from vlib.engine import And, Or, Not, Implies

from . import props

PLO, PHI = -20, 130
WMAX = 80
SMAX = 10

HISTORIES = {
    # name: list of steps; each step is (op, arg)
    "fresh": [("new", 0), ("nodes", None), ("compute", None)],
    "twice": [("new", 0), ("nodes", None), ("compute", None), ("compute", None)],
    "reconf": [("new", 1), ("nodes", None), ("compute", None), ("set_options", 0), ("compute", None)],
    "renodes": [("new", 1), ("nodes", None), ("compute", None), ("set_options", 0), ("nodes", None), ("compute", None)],
    "engine2": [("new", 1), ("nodes", None), ("compute", None), ("new", 0), ("nodes", None), ("compute", None)],
    "subset": [("new", 1), ("nodes", None), ("compute", None), ("set_options", 0), ("nodes", "drop-last"), ("compute", None)],
    "stale": [("stale", None), ("new", 0), ("nodes", None), ("compute", None)],
    # two engines alive at once with different configurations; the FIRST one is used after the second was configured
    "interleaved": [("new", 0), ("keep", None), ("new", 1), ("restore", None), ("nodes", None), ("compute", None)],
}


def optsets(cfg):
    """optset 0 = the configuration under test; optset 1 = a tighter one used to create layers/stubs first"""
    o0 = dict(algorithm=cfg["alg"], minPos=cfg["lo"], maxPos=cfg["hi"], density=cfg["density"], stubWidth=cfg["stubw"])
    o1 = dict(o0)
    o1.update(minPos=0, maxPos=40, algorithm="overlap" if cfg["alg"] == "none" else cfg["alg"])
    return [o0, o1]


def make_configs(ns, algs=("overlap", "simple", "none"), bounds=((0, 100), (None, 100), (0, None)), dens=(0.85,), stubws=(1,), hists=("fresh",), vpsc="contract", shards=1):
    out = []
    for n in ns:
        for alg in algs:
            for (lo, hi) in bounds:
                for d in dens:
                    for sw in stubws:
                        for h in hists:
                            if h == "subset" and n < 2:
                                continue
                            out.append(
                                dict(name="force-n%d-%s-lo%s-hi%s-d%s-sw%s-%s-%s" % (n, alg, lo, hi, d, sw, h, vpsc), vpsc=vpsc, shards=shards, harness="force", n=n, alg=alg, lo=lo, hi=hi, density=d, stubw=sw, hist=h, weight=(6 ** n) * len(HISTORIES[h]))
                            )
    return out


class Scn(object):
    pass


class _FB(object):
    """stand-in block: Variable.position() = (block.ps.scale * block.posn + offset) / scale"""

    class _PS(object):
        scale = 1

    ps = _PS()

    def __init__(self, posn):
        self.posn = posn


_QP = [0]


def solve_contract(self):
    """CONTRACT STUB for vpsc.Solver.solve (assume-guarantee): the variables receive THE optimum of the QP the real
    removeOverlap built (min sum w_i (x_i - d_i)^2 s.t. x_r - x_l >= gap for every constraint; walls are ordinary
    variables of weight 1e10), characterised by its exact KKT system over fresh reals.  That the real solver
    delivers this optimum is what C05 / C01 / C02 decide on the real vpsc code."""
    e = E.cur()
    _QP[0] += 1
    k = len(e.zvars)
    vs, cs = self.vs, self.cs
    # solve() is a deterministic function of the QP: a syntactically identical QP met earlier on this path gets the
    # same solution variables (so two runs that build the same QP agree without the solver having to re-derive uniqueness)
    memo = e.__dict__.setdefault("qp_memo", {})
    idx0 = {id(v): i for i, v in enumerate(vs)}
    key = (
        tuple((E.lin_of(v.desiredPosition).key(), E.lin_of(v.weight).key()) for v in vs),
        tuple((idx0[id(c.left)], idx0[id(c.right)], E.lin_of(c.gap).key()) for c in cs),
    )
    if key in memo:
        for i, v in enumerate(vs):
            v.block = _FB(memo[key][i])
            v.offset = 0
        return 0
    xs = e.free_reals(["qp%d_x%d" % (k, i) for i in range(len(vs))])
    lam = e.free_reals(["qp%d_l%d" % (k, i) for i in range(len(cs))])
    idx = {id(v): i for i, v in enumerate(vs)}
    cons = []
    stat = [2 * v.weight * (xs[i] - v.desiredPosition) for i, v in enumerate(vs)]
    for j, c in enumerate(cs):
        if c.left.scale != 1 or c.right.scale != 1:
            raise E.ModelGap("contract stub: scale != 1")
        l, r = idx[id(c.left)], idx[id(c.right)]
        slack = xs[r] - xs[l] - c.gap
        cons += [slack >= 0, lam[j] >= 0, Or(lam[j] == 0, slack == 0)]
        stat[l] = stat[l] + lam[j]
        stat[r] = stat[r] - lam[j]
    cons += [st == 0 for st in stat]
    e.assume(And(*cons))
    memo[key] = xs
    for i, v in enumerate(vs):
        v.block = _FB(xs[i])
        v.offset = 0
    return 0


def use_contract(on):
    from labella import vpsc

    if on:
        if not hasattr(vpsc.Solver, "_real_solve"):
            vpsc.Solver._real_solve = vpsc.Solver.solve
        vpsc.Solver.solve = solve_contract
    elif hasattr(vpsc.Solver, "_real_solve"):
        vpsc.Solver.solve = vpsc.Solver._real_solve


def scenario(cfg, val, fresh_only=False):
    """run the configured history on the real engine; returns Scn with .force .nodes .p .w .s"""
    from labella.force import Force
    from labella.node import Node

    n = cfg["n"]
    sc = Scn()
    sc.s = val("s", 0, SMAX)
    sc.p = [val("p%d" % i, PLO, PHI) for i in range(n)]
    sc.w = [val("w%d" % i, 0, WMAX, True) for i in range(n)]
    if cfg.get("tie_split") and E.ENGINE is not None:
        # decide ties of data positions up front and, on a tie, use ONE proxy for both labels (the statement's
        # premise: labels sharing a data position share a width) -- identical inputs then build identical terms
        for j in range(n):
            for i in range(j):
                if bool(sc.p[i] == sc.p[j]):
                    E.ENGINE.assume(sc.w[i] == sc.w[j])
                    sc.p[j] = sc.p[i]
                    sc.w[j] = sc.w[i]
                    break
    sc.nodes = [Node(sc.p[i], sc.w[i], data="d%d" % i) for i in range(n)]
    for i, nd in enumerate(sc.nodes):
        nd.vid = i
    sc.live = list(sc.nodes)
    osets = optsets(cfg)
    hist = HISTORIES["fresh"] if fresh_only else HISTORIES[cfg["hist"]]
    f = None
    for op, arg in hist:
        if op == "new":
            o = dict(osets[arg])
            o["nodeSpacing"] = sc.s if arg == 0 else 0  # the auxiliary configuration differs in EVERY option, spacing included
            f = Force(o)
        elif op == "nodes":
            sc.live = list(sc.nodes[:-1]) if arg == "drop-last" else list(sc.nodes)
            f.nodes(list(sc.live))
        elif op == "compute":
            f.compute()
        elif op == "set_options":
            o = dict(osets[arg])
            o["nodeSpacing"] = sc.s
            f.set_options(o)
        elif op == "keep":
            kept = f
        elif op == "restore":
            sc.other_engine = f
            f = kept
        elif op == "stale":
            # arbitrary stale state on the label objects: position, layer index, overlap count, a dangling stub
            for i, nd in enumerate(sc.nodes):
                nd.currentPos = val("stalepos%d" % i, PLO, PHI)
                nd.layerIndex = 1 + (i % 2)
                nd.overlapCount = 7
            st = sc.nodes[0].createStub(3)
            st.currentPos = val("stalestub", PLO, PHI)
    sc.force = f
    sc.opts = osets[0]
    return sc


def chain(nd):
    """the node's own stub chain, label first (walks .parent; bounded)"""
    out = []
    cur = nd.parent
    k = 0
    while cur is not None and k < 12:
        out.append(cur)
        cur = cur.parent
        k += 1
    return out


def items_by_layer(sc):
    """observable layering: every live label plus its .parent chain, grouped by layerIndex"""
    layers = {}
    for nd in sc.live:
        for it in [nd] + chain(nd):
            li = it.layerIndex
            if isinstance(li, E.SymNum):
                li = li.__index__()
            layers.setdefault(li, []).append(it)
    return layers


def root_vid(it):
    k = 0
    while getattr(it, "child", None) is not None and k < 12:
        it = it.child
        k += 1
    return getattr(it, "vid", None)


def true_target(sc, it, li, num):
    if li == 0:
        v = root_vid(it)
        return None if v is None else num(sc.p[v])
    if it.parent is None:
        return None
    return num(it.parent.currentPos)


def ordered_layer(sc, li, items, sink):
    """items in the order the engine laid them out (getLayers) when that list is consistent with the observable
    layering, else sorted by position"""
    L = sc.force.getLayers()
    if isinstance(L, list) and li < len(L) and len(L[li]) == len(items) and all(any(a is b for b in items) for a in L[li]):
        return list(L[li])
    its = list(items)
    for i in range(1, len(its)):  # insertion sort on positions (comparisons fork in symbolic mode)
        j = i
        while j > 0 and (its[j].currentPos < its[j - 1].currentPos):
            its[j], its[j - 1] = its[j - 1], its[j]
            j -= 1
    return its


def assert_layers(sink, cfg, sc, want, num):
    layers = items_by_layer(sc)
    s = num(sc.s)
    lo = None if sc.opts["minPos"] is None else num(sc.opts["minPos"])
    hi = None if sc.opts["maxPos"] is None else num(sc.opts["maxPos"])
    for li in sorted(layers):
        items = ordered_layer(sc, li, layers[li], sink)
        tg = [true_target(sc, it, li, num) for it in items]
        if any(t is None for t in tg):
            sink.check("every-deeper-item-has-a-stub-below-and-every-item-a-label", False, info="layer %d" % li)
            continue
        wd = [num(it.width) for it in items]
        cur = [num(it.currentPos) for it in items]
        stubs = [bool(it.isStub()) for it in items]
        tag = "L%d:" % li + "".join("S" if x else "L" for x in stubs)
        if want == "C01":
            props.c01(sink, tg, wd, stubs, cur, s, tag)
        elif want == "C02":
            props.c02(sink, tg, wd, stubs, cur, s, lo, hi, tag)
        elif want == "C03":
            props.c03(sink, tg, wd, stubs, cur, s, lo, hi, tag)
    if want == "C03":
        # the width handed to the layering step is hi - lo (None when a bound is missing)
        lw = sc.force.distributor.options["layerWidth"]
        exp = None if (lo is None or hi is None) else hi - lo
        sink.check("layerWidth-handed-to-distributor", (lw is None) if exp is None else (lw is not None and And(num(lw) == exp) is True), info="layerWidth=%r" % (lw,))


# ------------------------------------------------------------------------------------
def sym_val(e):
    def val(name, lo, hi, strict=False):
        return e.real(name, lo, hi, lo_strict=strict)

    return val


def conc_val(inputs):
    def val(name, lo, hi, strict=False):
        return float(inputs[name])

    return val


def run(e, cfg, want):
    use_contract(cfg.get("vpsc", "contract") == "contract")
    try:
        sc = scenario(cfg, sym_val(e))
    finally:
        use_contract(False)
    assert_layers(props.SymSink(e), cfg, sc, want, lambda x: x)


def describe(sc):
    out = []
    for nd in sc.nodes:
        out.append("label%d(pos=%s,w=%s)->layer %s at %s chain %s" % (nd.vid, nd.idealPos, nd.width, nd.layerIndex, nd.currentPos, [(c.layerIndex, c.currentPos) for c in chain(nd)]))
    return "; ".join(out)


def replay(cfg, inputs, check, info, want):
    sc = scenario(cfg, conc_val(inputs))
    sink = props.ConcSink()
    assert_layers(sink, cfg, sc, want, lambda x: Fraction(x))
    return dict(violated=bool(sink.bad), detail="; ".join(sink.bad[:4]) + " | s=%s %s | %s" % (sc.s, cfg["name"], describe(sc)), signature="force:%s:%s:%s" % (want, cfg["hist"], cfg["alg"]))
