"""C03 -- bounds honoured when the items fit; otherwise the excess spills beyond them."""
from . import layer, forceh

PROPERTY = "C03"
EXPLANATION = (
    "Same exploration as C01 (real removeOverlap + vpsc on one layer; lower-only, upper-only, both bounds, also removeOverlap's own "
    "default lower bound 0). Under the assumption 'the items fit' (sum of widths + per-pair spacing <= hi - lo; always true with a single "
    "bound) z3 proves every item's left edge >= lo - 0.5 - 1e-6 and right edge <= hi + 0.5 + 1e-6. Without that assumption it proves "
    "that the span currentPos_last - currentPos_first is at least the sum of all required gaps - 1 - 1e-6 (the excess is never absorbed "
    "as overlap; C01 gives the per-pair form). Paths on which 'fits' is unsatisfiable are counted (fits_unreachable), not passed silently."
)
BOUNDS = {
    "quick": dict(items="1..3 (n=3: kinds L,C,S; default lower bound 0 only for n<=2)", bound_tolerance="0.5 rounding + 1e-4 (soft walls of weight 1e10: displacement <= n*2e4/1e10)", value_box="targets in [-1e4,1e4], widths in (0,1000], spacing in [0,50], lower bound in [-1e4,1e4] (negative and fractional included), upper in [-1e4,3e4], either order"),
    "thorough": dict(items="1..4 (n=4: kinds L,S with one bound)"),
}
OUTSIDE = ["layers of more than 4 items", "IEEE-754 rounding", "the width handed to the layering step (checked in C04's Force harness)"]
ASSUMPTIONS = ["floats as exact reals; round() ties-to-even", "Solver.solve cost test over-approximated"]


def configs(tier):
    return _layer_configs(tier) + _force_configs(tier)


def _force_configs(tier):
    F = forceh.make_configs
    if tier == "quick":
        return F([2, 3]) + F([2], algs=("overlap", "simple"), bounds=((0, 100),), hists=("reconf", "engine2", "stale", "subset", "interleaved"))
    c = F([1, 2, 3], dens=(0.85, 0.5), stubws=(1, 5), bounds=((0, 100), (None, 100), (0, None), (-30, 45)))
    c += F([2], bounds=((0, 100), (None, 100)), hists=("twice", "reconf", "renodes", "engine2", "subset", "stale", "interleaved"))
    c += F([3], algs=("overlap", "simple"), bounds=((0, 100),), hists=("reconf", "engine2", "stale"), shards=4)
    c += F([4], algs=("overlap", "simple"), bounds=((0, 100),), shards=8)
    c += F([2], vpsc="real")  # the real vpsc end to end (no contract stub)
    return c


def _layer_configs(tier):
    if tier == "quick":
        c = layer.make_configs([1, 2], walls=("l", "r", "lr")) + layer.make_configs([3], walls=("l", "r", "lr"), kinds="LCS")
        c += layer.make_configs([1, 2], walls=("", "r"), extra=dict(default_minpos=True))
    else:
        ns = [1, 2, 3]
        c = layer.make_configs(ns, walls=("l", "r", "lr"))
        c += layer.make_configs(ns, walls=("", "r"), extra=dict(default_minpos=True))
    for x in c:
        if x.get("default_minpos"):
            x["name"] += "-defaultmin"
    if tier != "quick":
        c += layer.make_configs([4], walls=("l", "r"), kinds="LS", extra=dict(shards=4))
    return c


def run(e, cfg):
    if cfg.get("harness") == "force":
        return forceh.run(e, cfg, "C03")
    return layer.run(e, cfg, "C03")


def replay(cfg, inputs, check, info):
    if cfg.get("harness") == "force":
        return forceh.replay(cfg, inputs, check, info, "C03")
    return layer.replay(cfg, inputs, check, info, "C03")
