"""C19 -- label text reaches TeX intact: accents become TeX accents, nothing else changes."""
import sys
from fractions import Fraction

from vlib import engine as E
from vlib import symuni
from vlib.engine import And, Or, Not, Implies
from vlib.symstr import SymStr

from . import props

PROPERTY = "C19"
ENGINE_OPTS = dict(timeout_ms=60000, max_decisions=20000)
EXPLANATION = (
    "Bounded symbolic execution of the real labella.tex.uni2tex on a string of 0..2 characters whose code points are symbolic over ALL of "
    "Unicode (surrogates excluded). unicodedata.category / decomposition are modelled by relations read from the running interpreter's tables: category "
    "= interval membership, decomposition = a fork over its shape (empty / canonical 1 field / canonical 2 fields / tagged with k fields) with, for the "
    "canonical base+mark shape, base and mark tied to the character by the table relation. Any exception is a violation. The output (concrete structure, "
    "symbolic characters per path) is matched against the input by a relation that IS the statement: the output is a concatenation of pieces, each either "
    "one input character unchanged, or \\\\A{B} where B is the next input character and the accent's combining mark is the input character after it, or "
    "\\\\A{B} where (input character, B, mark(A)) is a canonical decomposition; z3 proves that a matching exists on every path (reading each \\\\A{B} back as "
    "B + mark(A) then reproduces the input up to the canonical decompositions unicodedata itself reports). All-ASCII input: output proven identical. The same relation is "
    "proved for the \\def\\text.. line of TimelineTex.export() on a one-character symbolic label (the call site)."
)
BOUNDS = {"quick": dict(length="0..2 characters, every code point"), "thorough": dict(length="0..2 characters over every code point (same as quick)")}
OUTSIDE = ["strings longer than 2 characters (the function is a one-pass scan with one character of look-ahead; 3 symbolic characters are > 40 000 paths)", "full NFD re-ordering of several marks on one base", "TeX special characters pass through by design"]
ASSUMPTIONS = ["unicodedata tables of the running interpreter (the same the code under test calls)", "str.format of '\\\\%s{%s}' with a symbolic character = concatenation"]

ACCENTS = {0x0300: "`", 0x0301: "'", 0x0302: "^", 0x0308: '"', 0x030B: "H", 0x0303: "~", 0x0327: "c", 0x0328: "k", 0x0304: "=", 0x0331: "b", 0x0307: ".", 0x0323: "d", 0x030A: "r", 0x0306: "u", 0x030C: "v"}
LETTER2MARK = {ord(v): k for k, v in ACCENTS.items()}


def configs(tier):
    ns = [0, 1, 2]
    out = [dict(name="uni-n%d" % n, n=n, ascii=False, weight=30 ** n, shards=(1 if n < 2 else 8)) for n in ns]
    # (three symbolic characters were measured at > 40 000 paths even inside a Latin/combining window: not registered; the
    #  function looks one character ahead, so every local context of the scan is already a 2-character string)
    out += [dict(name="ascii-n%d" % n, n=n, ascii=True, weight=1) for n in (1, 2, 3)]
    out += [dict(name="export-n1", n=1, ascii=False, export=True, weight=40, shards=2)]
    return out


def run_export(e, cfg):
    """the TikZ export path: the \\def\\text.. line of a timeline whose only label carries the symbolic text"""
    from labella.scale import LinearScale
    from labella.timeline import TimelineTex

    n = cfg["n"]
    sink = props.SymSink(e)

    def doc_for(text):
        tl = TimelineTex([{"time": 5.0, "width": 30, "text": text}, {"time": 50.0, "width": 30}], {"scale": LinearScale(), "domain": [0.0, 100.0]})
        return tl.export()

    ref = doc_for("X")
    marker = "\\def\\textA{"
    p = ref.index(marker) + len(marker)
    text = SymStr.fresh(e, "c", n, 0, sys.maxunicode)
    try:
        doc = doc_for(text)
    except Exception as ex:
        sink.check("export-never-raises", False, info="%s: %s" % (type(ex).__name__, str(ex)[:100]))
        return
    dcp = list(doc.cps) if isinstance(doc, SymStr) else [ord(ch) for ch in doc]
    lb = len(dcp) - (len(ref) - 1)
    pre_ok = all(isinstance(x, int) and x == ord(y) for x, y in zip(dcp[:p], ref[:p]))
    suf = ref[p + 1 :]
    suf_ok = lb >= 0 and all(isinstance(x, int) and x == ord(y) for x, y in zip(dcp[p + lb :], suf)) and len(dcp[p + lb :]) == len(suf)
    sink.check("document-around-the-text-macro-is-unchanged", pre_ok and suf_ok, info="body length %d" % lb)
    if pre_ok and suf_ok:
        sink.check("text-macro-is-the-input-with-accents-as-tex-commands", matches(list(text.cps), dcp[p : p + lb]), info="body length %d" % lb)


def matches(inp, out):
    """SymBool: `out` is a legal rendering of `inp` (lists of code points, int or SymInt)"""
    memo = {}

    def eqc(a, b):
        return a == b

    def go(i, j):
        k = (i, j)
        if k in memo:
            return memo[k]
        if i == len(inp):
            r = j == len(out)
        else:
            alts = []
            if j < len(out):
                alts.append(And(eqc(out[j], inp[i]), go(i + 1, j + 1)))
            if j + 4 < len(out):
                head = And(eqc(out[j], 92), eqc(out[j + 2], 123), eqc(out[j + 4], 125))
                if head is not False:
                    for letter, mark in LETTER2MARK.items():
                        isl = eqc(out[j + 1], letter)
                        if isl is False:
                            continue
                        if i + 1 < len(inp):
                            alts.append(And(head, isl, eqc(out[j + 3], inp[i]), eqc(inp[i + 1], mark), go(i + 2, j + 5)))
                        rel = symuni.canon2_rel(inp[i], out[j + 3], mark, marks=(mark,)) if isinstance(inp[i], E.SymInt) or isinstance(out[j + 3], E.SymInt) else any((inp[i], out[j + 3], mark) == t for t in symuni.tables()["canon2"])
                        alts.append(And(head, isl, rel, go(i + 1, j + 5)))
            r = Or(*alts)
        memo[k] = r
        return r

    return go(0, 0)


def run(e, cfg):
    if cfg.get("export"):
        return run_export(e, cfg)
    from labella.tex import uni2tex

    n = cfg["n"]
    text = SymStr.fresh(e, "c", n, 0, 127 if cfg["ascii"] else sys.maxunicode) if n else ""
    if cfg.get("window"):
        for c in text.cps:
            e.assume(Or(*[And(c >= a, c <= b) for a, b in cfg["window"]]))
    sink = props.SymSink(e)
    try:
        out = uni2tex(text)
    except Exception as ex:
        sink.check("conversion-never-raises", False, info="%s: %s" % (type(ex).__name__, str(ex)[:100]))
        return
    inp = list(text.cps) if isinstance(text, SymStr) else [ord(c) for c in text]
    outc = list(out.cps) if isinstance(out, SymStr) else [ord(c) for c in out]
    if cfg["ascii"]:
        sink.check("ascii-text-is-untouched", len(outc) == len(inp) and And(*[a == b for a, b in zip(inp, outc)]))
        return
    sink.check("output-is-the-input-with-accents-as-tex-commands", matches(inp, outc), info="output length %d" % len(outc))


def replay(cfg, inputs, check, info):
    import unicodedata

    from labella.tex import uni2tex

    text = "".join(chr(int(inputs["c_%d" % i])) for i in range(cfg["n"]))
    if cfg.get("export"):
        from labella.scale import LinearScale
        from labella.timeline import TimelineTex

        try:
            doc = TimelineTex([{"time": 5.0, "width": 30, "text": text}, {"time": 50.0, "width": 30}], {"scale": LinearScale(), "domain": [0.0, 100.0]}).export()
        except Exception as ex:
            return dict(violated=True, detail="TimelineTex export with label %r raises %s: %s" % (text, type(ex).__name__, ex), signature="C19:export-exception")
        marker = "\\def\\textA{"
        i = doc.index(marker) + len(marker)
        j = doc.index("}\n", i) if not text.endswith("}") else doc.index("}\n", i) + 0
        # the body ends at the LAST '}' of its line
        line_end = doc.index("\n", i)
        body = doc[i : line_end - 1]
        ok = matches([ord(c) for c in text], [ord(c) for c in body])
        return dict(violated=not ok, detail="label %r is written to TeX as %r" % (text, body), signature="C19:export")
    try:
        out = uni2tex(text)
    except Exception as ex:
        return dict(violated=True, detail="uni2tex(%r) raises %s: %s" % (text, type(ex).__name__, ex), signature="C19:exception")
    inp = [ord(c) for c in text]
    outc = [ord(c) for c in out]
    ok = text == out if cfg["ascii"] else matches(inp, outc)
    if not isinstance(ok, bool):
        raise TypeError("symbolic value in concrete replay")
    return dict(violated=not ok, detail="uni2tex(%r) = %r is not the input with accented characters replaced by accent commands on the same base" % (text, out), signature="C19:relation")
