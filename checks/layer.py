"""Shared harness for C01 / C02 / C03: ONE layer handed to the real removeOverlap + vpsc.

A layer is built directly: item i has symbolic target t_i, width w_i and a concrete kind
  L  label without parent (nearest layer)          target = idealPos
  C  label whose parent stub sits at t_i            target = parent.currentPos
  S  stub (has a child) without parent              target = idealPos
  T  stub with a parent stub                        target = parent.currentPos
Because Force.compute hands each layer to removeOverlap with targets that are either data
positions or the final positions of stubs, an ARBITRARY target per item subsumes every layer
of every layering.  All values are symbolic over the same box, so only the multiset of kinds
matters (a permutation of the items is a renaming of solver variables; every order and every
tie of the targets is explored on the paths through the real sort).
"""
import itertools
from fractions import Fraction

from vlib import engine as E
from vlib.engine import And, Or, Not, Implies

from . import props

EPS = Fraction(1, 10**6)
# bounds are SOFT walls of weight 1e10 (removeOverlap.py): n unit-weight items whose targets lie up to 2e4 away
# (the value box) displace a wall by at most n * 2e4 / 1e10 <= 8e-6.  EPS_WALL absorbs that code constant.
EPS_WALL = Fraction(1, 10**4)
POS = 10**4
WMAX = 1000
SMAX = 50
KINDS = "LCST"

FUNCS_NOTE = "real functions executed symbolically are listed in coverage.functions_encoded (from entry markers)"


def kind_multisets(n, kinds=KINDS):
    return ["".join(c) for c in itertools.combinations_with_replacement(kinds, n)]


def make_configs(ns, walls=("", "l", "r", "lr"), kinds=KINDS, extra=None):
    out = []
    for n in ns:
        for ks in kind_multisets(n, kinds):
            for w in walls:
                c = dict(name="n%d-%s-walls_%s" % (n, ks, w or "none"), n=n, kinds=ks, walls=w, weight=(4 ** n) * (1 + 3 * len(w)))
                if extra:
                    c.update(extra)
                out.append(c)
    return out


def is_stub(k):
    return k in "ST"


def build(cfg, val):
    """val(name, lo, hi, strict_lo) -> number.  Returns (nodes, opts, sym dict)"""
    from labella.node import Node

    n = cfg["n"]
    s = val("s", 0, SMAX)
    nodes = []
    ts, ws = [], []
    for i, k in enumerate(cfg["kinds"]):
        t = val("t%d" % i, -POS, POS)
        w = val("w%d" % i, 0, WMAX, True)
        ts.append(t)
        ws.append(w)
        if k in "LS":
            nd = Node(t, w)
        else:
            # a node whose own data position is unrelated to its target (the stub's final position)
            ip = val("ip%d" % i, -POS, POS)
            nd = Node(ip, w)
            par = Node(ip, 1)
            par.currentPos = t
            par.child = nd
            nd.parent = par
        if k in "ST":
            ch = Node(nd.idealPos, 1)
            ch.parent_unused = True
            nd.child = ch  # isStub() only looks at .child
        # arbitrary STALE position on the item: removeOverlap must not depend on where an item happened to be before
        nd.currentPos = val("stale%d" % i, -POS, POS)
        nd.vid = i
        nodes.append(nd)
    opts = {"nodeSpacing": s, "minPos": None, "maxPos": None}
    lo = hi = None
    if "l" in cfg["walls"]:
        lo = val("lo", -POS, POS)
        opts["minPos"] = lo
    if "r" in cfg["walls"]:
        hi = val("hi", -POS, 3 * POS)
        opts["maxPos"] = hi
    if cfg.get("default_minpos"):
        # minPos left to removeOverlap's own default (0)
        del opts["minPos"]
        lo = 0
    return nodes, opts, dict(s=s, t=ts, w=ws, lo=lo, hi=hi)


def gaps_of(out, s, line=2):
    g = []
    for a, b in zip(out, out[1:]):
        sp = line if (a.isStub() and b.isStub()) else s
        g.append((a.width + b.width) / 2 + sp)
    return g


# ------------------------------------------------------------------------------------ both modes
def _layer_view(cfg, sy, out, num):
    """the layer in the order the code laid it out, with TRUE targets (independent of the code's own targetPos
    attribute): the data position for items without a parent, the parent stub's final position otherwise -- by
    construction both are the harness variable t_i"""
    tg = [num(sy["t"][o.vid]) for o in out]
    wd = [num(sy["w"][o.vid]) for o in out]
    cur = [num(o.currentPos) for o in out]
    stubs = [is_stub(cfg["kinds"][o.vid]) for o in out]
    tag = "".join(cfg["kinds"][o.vid] for o in out)
    return tg, wd, stubs, cur, tag


def _assert(sink, cfg, sy, out, want, num):
    if sorted(o.vid for o in out) != list(range(cfg["n"])):
        sink.check("layer-is-a-permutation-of-the-input", False)
        return
    tg, wd, stubs, cur, tag = _layer_view(cfg, sy, out, num)
    s = num(sy["s"])
    lo = None if sy["lo"] is None else num(sy["lo"])
    hi = None if sy["hi"] is None else num(sy["hi"])
    if want == "C01":
        props.c01(sink, tg, wd, stubs, cur, s, tag)
    elif want == "C02":
        props.c02(sink, tg, wd, stubs, cur, s, lo, hi, tag)
    elif want == "C03":
        props.c03(sink, tg, wd, stubs, cur, s, lo, hi, tag)


def run(e, cfg, want):
    from labella import removeOverlap as ro

    def val(name, lo, hi, strict=False):
        return e.real(name, lo, hi, lo_strict=strict)

    nodes, opts, sy = build(cfg, val)
    if cfg.get("ordered_walls") and sy["lo"] is not None and sy["hi"] is not None:
        e.assume(sy["lo"] <= sy["hi"])
    out = ro.removeOverlap(list(nodes), opts)
    _assert(props.SymSink(e), cfg, sy, out, want, lambda x: x)


def replay(cfg, inputs, check, info, want):
    from labella import removeOverlap as ro

    def val(name, lo, hi, strict=False):
        return float(inputs[name])

    nodes, opts, sy = build(cfg, val)
    out = ro.removeOverlap(list(nodes), opts)
    sink = props.ConcSink()
    _assert(sink, cfg, sy, out, want, lambda x: Fraction(x))
    desc = "kinds=%s walls=%r s=%s items(target,width,cur)=%s lo=%s hi=%s" % (
        "".join(cfg["kinds"][o.vid] for o in out), cfg["walls"], sy["s"], [(sy["t"][o.vid], sy["w"][o.vid], o.currentPos) for o in out], sy["lo"], sy["hi"])
    return dict(violated=bool(sink.bad), detail="; ".join(sink.bad[:4]) + " | " + desc, signature="layer:%s:%s:%s" % (want, ",".join(sorted(set(b.split(":")[0].split(" ")[0] for b in sink.bad))), cfg["kinds"]))
