"""Shared harness for C01 / C02 / C03: ONE layer handed to the real removeOverlap + vpsc.

A layer is built directly: item i has symbolic target t_i, width w_i and a concrete kind
  L  label without parent (nearest layer)          target = idealPos
  C  label whose parent stub sits at t_i            target = parent.currentPos
  S  stub (has a child) without parent              target = idealPos
  T  stub with a parent stub                        target = parent.currentPos
Because Force.compute hands each layer to removeOverlap with targets that are either data
positions or the final positions of stubs, an ARBITRARY target per item subsumes every layer
of every layering.  All values are symbolic over the same box, so only the multiset of kinds
matters (a permutation of the items is a renaming of solver variables; every order and every
tie of the targets is explored on the paths through the real sort).
"""
import itertools
from fractions import Fraction

from vlib import engine as E
from vlib.engine import And, Or, Not, Implies

EPS = Fraction(1, 10**6)
# bounds are SOFT walls of weight 1e10 (removeOverlap.py): n unit-weight items whose targets lie up to 2e4 away
# (the value box) displace a wall by at most n * 2e4 / 1e10 <= 8e-6.  EPS_WALL absorbs that code constant.
EPS_WALL = Fraction(1, 10**4)
POS = 10**4
WMAX = 1000
SMAX = 50
KINDS = "LCST"

FUNCS_NOTE = "real functions executed symbolically are listed in coverage.functions_encoded (from entry markers)"


def kind_multisets(n, kinds=KINDS):
    return ["".join(c) for c in itertools.combinations_with_replacement(kinds, n)]


def make_configs(ns, walls=("", "l", "r", "lr"), kinds=KINDS, extra=None):
    out = []
    for n in ns:
        for ks in kind_multisets(n, kinds):
            for w in walls:
                c = dict(name="n%d-%s-walls_%s" % (n, ks, w or "none"), n=n, kinds=ks, walls=w, weight=(4 ** n) * (1 + 3 * len(w)))
                if extra:
                    c.update(extra)
                out.append(c)
    return out


def is_stub(k):
    return k in "ST"


def build(cfg, val):
    """val(name, lo, hi, strict_lo) -> number.  Returns (nodes, opts, sym dict)"""
    from labella.node import Node

    n = cfg["n"]
    s = val("s", 0, SMAX)
    nodes = []
    ts, ws = [], []
    for i, k in enumerate(cfg["kinds"]):
        t = val("t%d" % i, -POS, POS)
        w = val("w%d" % i, 0, WMAX, True)
        ts.append(t)
        ws.append(w)
        if k in "LS":
            nd = Node(t, w)
        else:
            # a node whose own data position is unrelated to its target (the stub's final position)
            ip = val("ip%d" % i, -POS, POS)
            nd = Node(ip, w)
            par = Node(ip, 1)
            par.currentPos = t
            par.child = nd
            nd.parent = par
        if k in "ST":
            ch = Node(nd.idealPos, 1)
            ch.parent_unused = True
            nd.child = ch  # isStub() only looks at .child
        nd.vid = i
        nodes.append(nd)
    opts = {"nodeSpacing": s, "minPos": None, "maxPos": None}
    lo = hi = None
    if "l" in cfg["walls"]:
        lo = val("lo", -POS, POS)
        opts["minPos"] = lo
    if "r" in cfg["walls"]:
        hi = val("hi", -POS, 3 * POS)
        opts["maxPos"] = hi
    if cfg.get("default_minpos"):
        # minPos left to removeOverlap's own default (0)
        del opts["minPos"]
        lo = 0
    return nodes, opts, dict(s=s, t=ts, w=ws, lo=lo, hi=hi)


def gaps_of(out, s, line=2):
    g = []
    for a, b in zip(out, out[1:]):
        sp = line if (a.isStub() and b.isStub()) else s
        g.append((a.width + b.width) / 2 + sp)
    return g


# ------------------------------------------------------------------------------------ symbolic
def run(e, cfg, want):
    from labella import removeOverlap as ro

    def val(name, lo, hi, strict=False):
        return e.real(name, lo, hi, lo_strict=strict)

    nodes, opts, sy = build(cfg, val)
    lo, hi, s = sy["lo"], sy["hi"], sy["s"]
    if cfg.get("ordered_walls") and lo is not None and hi is not None:
        e.assume(lo <= hi)
    out = ro.removeOverlap(list(nodes), opts)
    m = len(out)
    tg = [o.targetPos for o in out]
    cur = [o.currentPos for o in out]
    wd = [o.width for o in out]
    gaps = gaps_of(out, s)
    fits = True
    if lo is not None and hi is not None:
        fits = sum(wd) + sum(g - (a + b) / 2 for g, a, b in zip(gaps, wd, wd[1:])) <= hi - lo
    tag = "".join(cfg["kinds"][o.vid] for o in out)
    if want == "C01":
        # order of targets
        e.check("order-targets", And(*[tg[k] <= tg[k + 1] for k in range(m - 1)]))
        # (order of the POSITIONS is implied by the signed separation below + integrality whenever the
        #  required gap exceeds 1e-6; below that the solver's own 1e-10 tolerance decides and nothing is claimed)
        # separation, every pair, chain form (see module doc of C01)
        props = []
        for i in range(m):
            acc = 0
            for j in range(i + 1, m):
                acc = acc + gaps[j - 1]
                props.append(cur[j] - cur[i] >= acc - 1 - EPS)
        e.check("separation", And(*props), info=tag)
        e.check("integer-positions", all(isinstance(c, (int, E.SymInt)) for c in cur))
    if want == "C03":
        if lo is not None or hi is not None:
            p1 = []
            if lo is not None:
                p1 += [cur[k] - wd[k] / 2 >= lo - Fraction(1, 2) - EPS_WALL for k in range(m)]
            if hi is not None:
                p1 += [cur[k] + wd[k] / 2 <= hi + Fraction(1, 2) + EPS_WALL for k in range(m)]
            r = e.check("inside-when-fits", And(*p1), assumptions=[fits], info=tag)
            if fits is not True and r != "unreachable":
                if not e.reachable([fits]):
                    e.events.append(("fits-unreachable",))
                    e.stats.__dict__["fits_unreachable"] = e.stats.__dict__.get("fits_unreachable", 0) + 1
        # spill: the separation is kept in full (span >= sum of the required gaps - 1)
        if m > 1:
            e.check("spill-keeps-span", cur[m - 1] - cur[0] >= sum(gaps) - 1 - EPS, info=tag)
    if want == "C02":
        import z3

        xs = [z3.Real("xs%d" % i) for i in range(m)]
        lam = [z3.Real("lam%d" % i) for i in range(m + 1)]
        T = [e.term(x) for x in tg]
        W = [e.term(x) for x in wd]
        G = [e.term(g) for g in gaps]
        cons = []
        sl = [xs[0] - W[0] / 2 - e.term(lo) if lo is not None else None]
        for i in range(m - 1):
            sl.append(xs[i + 1] - xs[i] - G[i])
        sl.append(e.term(hi) - xs[m - 1] - W[m - 1] / 2 if hi is not None else None)
        for k, s_ in enumerate(sl):
            if s_ is None:
                cons.append(lam[k] == 0)
            else:
                cons += [s_ >= 0, lam[k] >= 0, z3.Or(lam[k] == 0, s_ == 0)]
        for i in range(m):
            cons.append(2 * (xs[i] - T[i]) - lam[i] + lam[i + 1] == 0)
        tol = Fraction(1, 2) + Fraction(1, 100)
        ztol = z3.Q(tol.numerator, tol.denominator)
        C = [e.term(c) for c in cur]
        good = z3.And(*[z3.And(C[i] - xs[i] <= ztol, xs[i] - C[i] <= ztol) for i in range(m)])
        assumptions = [fits]
        if fits is False:
            e.stats.__dict__["fits_unreachable"] = e.stats.__dict__.get("fits_unreachable", 0) + 1
            return
        # oracle must be satisfiable on this path (else the check would be vacuous)
        if not e.reachable(assumptions, cons):
            if e.reachable(assumptions):
                e.gap("KKT oracle unsatisfiable although the layer fits")
            e.stats.__dict__["fits_unreachable"] = e.stats.__dict__.get("fits_unreachable", 0) + 1
            return
        zfit = [] if fits is True else [E._b(fits).z3(e)]
        r = e._check(*(zfit + cons + [z3.Not(good)]))
        e.stats.checks += 1
        if r == z3.unsat:
            e.stats.checks_unsat += 1
        elif r == z3.sat:
            e.stats.checks_sat += 1
            e.findings.append(dict(check="kkt-optimal", inputs={k: str(v) for k, v in e._model_to_base(e.solver.model()).items()}, deferred=len(e.deferred), info=tag, prefix=[]))
        else:
            e.stats.checks_unknown += 1
            e.stats.gaps.append("unknown on kkt-optimal")
        # corollary: enough room around every target => nothing moves (cur = round(target))
        room = And(*[tg[k + 1] - tg[k] >= gaps[k] for k in range(m - 1)])
        if lo is not None:
            room = And(room, tg[0] - wd[0] / 2 >= lo)
        if hi is not None:
            room = And(room, tg[m - 1] + wd[m - 1] / 2 <= hi)
        stay = And(*[And(cur[k] - tg[k] <= Fraction(1, 2) + EPS, tg[k] - cur[k] <= Fraction(1, 2) + EPS) for k in range(m)])
        e.check("not-moved-when-room", stay, assumptions=[room], info=tag)


# ------------------------------------------------------------------------------------ concrete
def exact_qp(t, gaps, w, lo, hi):
    """exact optimum of  min sum (x_k - t_k)^2  s.t. x_{k+1}-x_k >= gap_k, x_0 - w_0/2 >= lo, x_last + w_last/2 <= hi
    by enumeration of active sets (Fractions). Returns list or None when infeasible."""
    m = len(t)
    ncon = m + 1
    best = None
    for mask in range(1 << ncon):
        act = [(mask >> k) & 1 for k in range(ncon)]
        if act[0] and lo is None:
            continue
        if act[m] and hi is None:
            continue
        # blocks of consecutive items joined by active gaps
        x = [None] * m
        lam = [Fraction(0)] * ncon
        ok = True
        i = 0
        while i < m:
            j = i
            while j < m - 1 and act[j + 1]:
                j += 1
            off = [Fraction(0)]
            for k in range(i, j):
                off.append(off[-1] + gaps[k])
            fixed = []
            if i == 0 and act[0]:
                fixed.append(lo + w[0] / 2)
            if j == m - 1 and act[m]:
                fixed.append(hi - w[m - 1] / 2 - off[-1])
            if len(fixed) == 2 and fixed[0] != fixed[1]:
                ok = False
                break
            if fixed:
                p = fixed[0]
            else:
                p = sum(t[i + k] - off[k] for k in range(j - i + 1)) / (j - i + 1)
            for k in range(j - i + 1):
                x[i + k] = p + off[k]
            i = j + 1
        if not ok:
            continue
        # multipliers from stationarity: 2(x_i - t_i) - lam_i + lam_{i+1} = 0, inactive ones are 0
        # solve left to right where determined
        lam = [None] * ncon
        for k in range(ncon):
            if not act[k]:
                lam[k] = Fraction(0)
        changed = True
        while changed:
            changed = False
            for i in range(m):
                a, b = lam[i], lam[i + 1]
                r = 2 * (x[i] - t[i])
                if a is None and b is not None:
                    lam[i] = r + b
                    changed = True
                elif b is None and a is not None:
                    lam[i + 1] = a - r
                    changed = True
        if any(l is None for l in lam):
            # both walls active on one block: one degree of freedom; take lam[0] = max(0, ...) heuristically
            continue
        if any(2 * (x[i] - t[i]) - lam[i] + lam[i + 1] != 0 for i in range(m)):
            continue
        if any(l < 0 for l in lam):
            continue
        feas = all(x[k + 1] - x[k] >= gaps[k] for k in range(m - 1))
        if lo is not None:
            feas = feas and x[0] - w[0] / 2 >= lo
        if hi is not None:
            feas = feas and x[m - 1] + w[m - 1] / 2 <= hi
        if feas:
            best = x
            break
    return best


def replay(cfg, inputs, check, info, want):
    from labella import removeOverlap as ro

    def val(name, lo, hi, strict=False):
        return float(inputs[name])

    nodes, opts, sy = build(cfg, val)
    out = ro.removeOverlap(list(nodes), opts)
    F = Fraction
    s = F(sy["s"])
    lo = None if sy["lo"] is None else F(sy["lo"])
    hi = None if sy["hi"] is None else F(sy["hi"])
    m = len(out)
    tg = [F(o.targetPos) for o in out]
    cur = [F(o.currentPos) for o in out]
    wd = [F(o.width) for o in out]
    gaps = []
    for a, b in zip(out, out[1:]):
        sp = 2 if (a.isStub() and b.isStub()) else s
        gaps.append((F(a.width) + F(b.width)) / 2 + sp)
    desc = "kinds=%s walls=%r s=%s items(target,width,cur)=%s lo=%s hi=%s" % (
        "".join(cfg["kinds"][o.vid] for o in out), cfg["walls"], float(s), [(float(a), float(b), float(c)) for a, b, c in zip(tg, wd, cur)],
        None if lo is None else float(lo), None if hi is None else float(hi))
    bad = []
    fits = True
    if lo is not None and hi is not None:
        fits = sum(wd) + sum(g - (a + b) / 2 for g, a, b in zip(gaps, wd, wd[1:])) <= hi - lo
    if want == "C01":
        if any(tg[k] > tg[k + 1] for k in range(m - 1)):
            bad.append("targets out of order")
        for i in range(m):
            acc = 0
            for j in range(i + 1, m):
                acc += gaps[j - 1]
                if not cur[j] - cur[i] >= acc - 1 - EPS:
                    bad.append("items %d,%d: centre distance %s < required %s - 1" % (i, j, float(cur[j] - cur[i]), float(acc)))
        if any(c.denominator != 1 for c in cur):
            bad.append("non-integer position")
    if want == "C03":
        if fits:
            for k in range(m):
                if lo is not None and not cur[k] - wd[k] / 2 >= lo - F(1, 2) - EPS_WALL:
                    bad.append("item %d left edge %s < lower bound %s - 0.5 although the layer fits" % (k, float(cur[k] - wd[k] / 2), float(lo)))
                if hi is not None and not cur[k] + wd[k] / 2 <= hi + F(1, 2) + EPS_WALL:
                    bad.append("item %d right edge %s > upper bound %s + 0.5 although the layer fits" % (k, float(cur[k] + wd[k] / 2), float(hi)))
        if m > 1 and not cur[m - 1] - cur[0] >= sum(gaps) - 1 - EPS:
            bad.append("span %s < sum of required gaps %s - 1 (excess absorbed as overlap)" % (float(cur[m - 1] - cur[0]), float(sum(gaps))))
    if want == "C02":
        if fits:
            x = exact_qp(tg, gaps, wd, lo, hi)
            if x is None:
                return dict(violated=False, detail="exact QP oracle found no optimum (infeasible?) " + desc, signature="")
            for k in range(m):
                if abs(cur[k] - x[k]) > F(1, 2) + F(1, 100):
                    bad.append("item %d placed at %s, least-squares optimum %s" % (k, float(cur[k]), float(x[k])))
    return dict(violated=bool(bad), detail="; ".join(bad[:4]) + " | " + desc, signature="layer:%s:%s:%s" % (want, check, "".join(cfg["kinds"])))
