"""C16 -- time ticks never fail, increase, stay in the domain, sit on calendar boundaries."""
from . import timeh

PROPERTY = "C16"
NORMAL_FORM_DECIDES = True
ENGINE_OPTS = dict(nl_mode="exact", timeout_ms=60000, max_decisions=20000)
EXPLANATION = (
    "Bounded symbolic execution of the real TimeScale.ticks(m) (tickMethod with the bisect over d3_time_scaleSteps executed symbolically, "
    "d3_scale_linearTickRange for the millisecond and multi-year cases, d3TimeScaleMilliseconds.range, d3_time_interval.range/ceil and every "
    "unit's _local/_step/_number) on a symbolic domain [t0, t1] of naive datetimes at ms resolution between 1900 and 2200. The span range "
    "[1 ms, 250 years] is partitioned at m times the entries of the code's own step table (one configuration per window, so every tick method is "
    "reached and each interval.range loop is bounded; plus histories on ONE scale object - domain A, ticks(m), domain B of a very different span, ticks(m) again -; the choice between neighbouring methods inside a window is the code's, decided exactly). "
    "Per path z3 proves: no exception (any exception escaping the code is a violation); strictly increasing; every tick in [t0, t1] (1 ms slack only "
    "when all gaps are sub-second); count in [m/2.4 - 1, 2.4 m + 1] or, for spans shorter than m ms, one tick per millisecond; all pairs of "
    "consecutive gaps within a factor two; and alignment by the spacing actually delivered: all gaps >= 1 s => whole seconds, >= 1 min => whole "
    "minutes, >= 1 h => whole hours, >= 1 day => midnight, >= 28 days => first of the month, >= 365 days => 1 January."
)
BOUNDS = {
    "quick": dict(m="5, 10", orientation="ascending", instants="ms resolution 1900-2200", spans="1 ms .. 250 years in 19 windows"),
    "thorough": dict(m="2, 3, 5, 7, 10, 12", orientation="both", end_points="8 anchors x symbolic span per window (fully symbolic end points were measured at > 90 CPU-minutes for m = 10 and are not registered)"),
}
OUTSIDE = ["m > 12 (counts up to 50 in the statement)", "decision bound 20000 per path"]
ASSUMPTIONS = ["datetime/timedelta modelled by vlib.symdt (self-checked against datetime on every run)", "floats as exact reals; 10**-k decimal", "floor(log10 x) contract"]


def configs(tier):
    return timeh.c16_configs(tier) + timeh.c16_history_configs(tier)


def precheck(tier):
    return timeh.selfcheck()


def run(e, cfg):
    return timeh.run(e, cfg)


def replay(cfg, inputs, check, info):
    return timeh.replay(cfg, inputs, check, info, "C16")
