"""C11 -- export succeeds on every documented input."""
from fractions import Fraction

from vlib import engine as E

from . import props, tlh

PROPERTY = "C11"
# "no exception escapes" is a property of the PATH: every path is a solver-delimited region of the input box and the
# check is that no path ends in an exception (decided without a further query)
NORMAL_FORM_DECIDES = True
ENGINE_OPTS = dict(nl_mode="exact", timeout_ms=60000, max_decisions=20000)
EXPLANATION = (
    "Stage-wise bounded symbolic execution of the real TimelineSVG / TimelineTex constructors and export() (parse_items, equal_heights, rotate_items, "
    "init_axis, get_nodes, compute with the real Renderer/Force/Distributor/removeOverlap, every emitter method, utils and tex.uni2tex; "
    "ElementTree serialisation runs for real on documents with hole tokens). Any exception escaping is a violation. (a) end to end with "
    "symbolic times and widths for 1-2 data on an explicit concrete domain (LinearScale [0,100]; TimeScale 2021-01-25..2021-03-05), options "
    "omitted / {} / partial, all directions, texts with XML-special and non-ASCII characters; (b) derived (niced) domains on concrete data shapes with "
    "symbolic widths: single datum, equal times (dots proven at the axis start), unsorted, month ends, leap day, millisecond spans, centuries, "
    "date / time / datetime values, degenerate and huge linear domains; (c) engine options: algorithm x bounds (tight bounds force layers and "
    "stubs) with the vpsc contract stub; (d) a single-datum timeline exported after ANOTHER default-scale timeline was constructed (dots still proven at the axis start). The 'ticks()/nice() never raise' stage for symbolic time spans from 1 ms to 250 years is C16 / C14."
)
BOUNDS = {"quick": dict(data="1..2 (3 in one derived shape)", value_box="times inside the explicit domain, widths in [1,120]", shapes="18 time shapes (incl. 3 ms / 2 ms across the epoch / month-end and leap-day latest datum with month and year ticks / Sunday end), 5 linear shapes, 12 engine option sets, 4 two-timeline histories"), "thorough": dict(data="3 for engine option sets")}
OUTSIDE = ["more than 3 data / clusters > 4 labels", "interpreter recursion depth for > 200 conflicting labels (the statement's own known finding)", "labels without explicit width (LaTeX measurement)", "symbolic time spans in the derived-domain stage (C16/C14 cover ticks()/nice() symbolically)"]
ASSUMPTIONS = ["floats as exact reals", "datetime modelled by vlib.symdt", "vpsc contract stub in the engine-option configurations", "datetime.date.today() (used for time-of-day data) is whatever the run's date is"]


def configs(tier):
    return tlh.c11_configs(tier)


def run(e, cfg):
    tlh.c11(props.SymSink(e), cfg, tlh.sym_val(e), True)


def replay(cfg, inputs, check, info):
    sink = props.ConcSink()
    tlh.c11(sink, cfg, tlh.conc_val(inputs), False)
    return dict(violated=bool(sink.bad), detail="; ".join(sink.bad[:3]) + " | %s inputs=%s" % (cfg["name"], {k: float(v) for k, v in inputs.items()}), signature="C11:%s" % cfg["scale"])
