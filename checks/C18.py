"""C18 -- results do not depend on the process's local time zone."""
from . import timeh

PROPERTY = "C18"
NORMAL_FORM_DECIDES = True
ENGINE_OPTS = dict(nl_mode="exact", timeout_ms=60000, max_decisions=20000)
EXPLANATION = (
    "The calendar harnesses of C17 (floor/ceil/round/offset/range per unit), C15 (TimeScale mapping), C16 (ticks) and C14 (nice) are re-run with the "
    "process's local zone MODELLED instead of fixed to UTC: datetime.timestamp()/fromtimestamp() - the only ways the code can consult the zone - "
    "return values shifted by (a) one symbolic constant offset (-12 h .. +14 h in quarter hours) or (b) the real 2021 transition of America/New_York "
    "(spring and fall), Australia/Lord_Howe (30-minute shift) and Pacific/Chatham (+12:45/+13:45), with the queried instants symbolic around it; "
    "labella is re-imported on every path so that module-level code runs under the modelled zone as well. The assertions are the zone-independent "
    "oracles of C14-C17, so any dependence on the zone is a counter-example; it is replayed in a subprocess started with TZ set to the POSIX string "
    "of the model's offset or to the real zone name. A tree that never calls timestamp()/fromtimestamp() passes with results that do not mention the "
    "zone variables at all (decided by normal-form identity). Added in round 4: naive datetime.astimezone() is modelled as well (local -> UTC like mktime, "
    "then the wall clock of that instant), and Timeline.parse_items - the entry point of every exported timeline - is run on a symbolic datum time "
    "(minute resolution, 2021) under every zone model: the time stored in the item and in the datum dict must be the supplied one."
)
BOUNDS = {"quick": dict(zones="symbolic constant offset; New York spring/fall 2021, Lord Howe Apr 2021, Chatham Sep 2021", harnesses="C17 floor/ceil/round/offset(1)/range(hour, week), C15, C16 and C14 windows 7..16 anchored before each transition (New York spring also 30 h before the gap), week ranges with step 2 and 3 compared with the same computation under UTC"), "thorough": dict(harnesses="all units' ranges")}
OUTSIDE = ["zones with more than one transition inside the queried span", "leap seconds", "other years' transitions (the model is an instance, the mechanism - timestamp()/fromtimestamp() - is what is checked)", "whole exported timelines (C07's dot positions are TimeScale mappings, covered by the C15 cases)"]
ASSUMPTIONS = ["the local zone can only be consulted through datetime.timestamp()/fromtimestamp()/astimezone()/now()/today() (time.* and os.environ are not used by labella)", "datetime modelled by vlib.symdt"]


def configs(tier):
    return timeh.c18_configs(tier)


def precheck(tier):
    return timeh.selfcheck()


def run(e, cfg):
    return timeh.run(e, cfg)


def replay(cfg, inputs, check, info):
    return timeh.replay(cfg, inputs, check, info, "C18")
