"""C13 -- linear ticks are round, evenly spaced, complete, in-domain, uniquely labelled."""
from . import ticksh

PROPERTY = "C13"
ENGINE_OPTS = dict(nl_mode="exact", timeout_ms=30000)
EXPLANATION = (
    "Bounded symbolic execution of the real LinearScale.ticks / tickFormat (d3_scale_linearTickRange, drange, d3_scale_linearTickFormat, "
    "d3_scale_linearPrecision) on a symbolic domain (either orientation) inside the property's box; the requested count m is concrete per "
    "configuration. floor(log10 x) is forked over its contract window (both neighbours at an exact power of ten), the generator loop is unwound "
    "by the real code (one path per tick count). Per path: the step is a concrete number of the form {1,2,5}*10^k; z3 proves the ticks are the "
    "consecutive multiples T_0 + i*step, T_0 is the first multiple >= min (T_0 - step < min), the last tick is the last multiple <= max, T_0/step is "
    "an integer; the count lies in [floor(0.57 m), 1.43 m + 1]; every label is a hole '.Nf' applied to exactly its tick and step*10^N is an integer, "
    "so each label is the exact decimal of its tick (distinct ticks -> distinct texts, read-back error 0). History configurations (round 4): the same "
    "assertions on a scale object that was asked for ticks()/tickFormat() BEFORE nice(m) widened its domain, or before it was re-ranged, clamped and "
    "copied and the original re-domained: the ticks must be those of the domain the scale reports at the time of asking."
)
BOUNDS = {
    "quick": dict(domain="end points in [-1e9,1e9], span in [1e-9,1e12] and >= 1e-6*|end point|, either order", m="1, 2, 5, 10, default; 100 (ascending only)", histories="ticks-then-nice (m=5 asc, m=2 desc), ticks-then-range/clamp/copy/re-domain (m=2 asc, m=5 desc) with span in [0.5,5000] and end points in [-5000,5000]", log10_window="k in [-13,14]"),
    "thorough": dict(m="1..20, default, 100 (ascending)"),
}
OUTSIDE = ["m other than those listed (the statement goes to 100)", "float drift of the accumulating generator and float effects at the two ends (the statement's own caveat): exact arithmetic here", "10**-k is the decimal 1/10^k, not its binary64 neighbour"]
ASSUMPTIONS = ["floats as exact reals", "floor(log10 x) = k <=> 10^k <= x < 10^(k+1), either neighbour at exact powers", "format '.Nf' prints the correctly rounded N-decimal"]


def configs(tier):
    ms = [1, 2, 5, 10, None] if tier == "quick" else list(range(1, 21)) + [None]
    return ticksh.configs_for(ms, "ticks")


def run(e, cfg):
    return ticksh.run(e, cfg)


def replay(cfg, inputs, check, info):
    return ticksh.replay(cfg, inputs, check, info, "C13")
