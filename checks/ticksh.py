"""Shared harness for C13 / C14 (linear part): the real LinearScale.ticks / tickFormat / nice on a symbolic domain."""
from fractions import Fraction

from vlib import engine as E
from vlib.engine import And, Or, Not, Implies

from . import props

MAG = 10**9
SPAN_MIN = Fraction(1, 10**9)
SPAN_MAX = 10**12


SMALL_BOX = [False]


def domain_vals(sink, val, orient):
    """symbolic non-degenerate domain inside the property's box; orient +1 ascending, -1 descending"""
    lo = val("lo", -MAG, MAG)
    hi = val("hi", -MAG, MAG)
    if sink.mode == "sym":
        e = sink.e
        span = hi - lo
        e.assume(span >= SPAN_MIN)
        e.assume(span <= SPAN_MAX)
        # at least a millionth of the end points' magnitude
        e.assume(span * 10**6 >= hi)
        e.assume(span * 10**6 >= -hi)
        e.assume(span * 10**6 >= lo)
        e.assume(span * 10**6 >= -lo)
        # where a counter-example exists in this robust sub-box, report that one (floats replay it faithfully)
        lo8, hi8 = lo * 8, hi * 8
        if SMALL_BOX[0]:
            # history configurations: a smaller box (four decades of span) keeps the number of step paths down
            for c in (span >= Fraction(1, 2), span <= 5000, lo >= -5000, hi <= 5000):
                e.assume(c)
        e.model_hints = [span >= Fraction(1, 2), span <= 5000, lo >= -5000, hi <= 5000, lo8 == lo8.__floor__(), hi8 == hi8.__floor__()]
    return (lo, hi) if orient > 0 else (hi, lo)


def is_125(step, exact=True):
    if not exact:
        # concrete replay: the step is a binary64 (5e-09 is not exactly 5/10^9): compare the decimal mantissa
        mant = float(("%.12e" % float(step)).split("e")[0])
        return float(step) > 0 and any(abs(mant - c) <= 1e-9 for c in (1.0, 2.0, 5.0))
    step = Fraction(step)
    if step <= 0:
        return False
    while step >= 10:
        step /= 10
    while step < 1:
        step *= 10
    return step in (1, 2, 5)


def ticks_props(sink, cfg, val, num):
    from labella.scale import LinearScale

    m = cfg["m"]
    SMALL_BOX[0] = bool(cfg.get("hist"))
    d0, d1 = domain_vals(sink, val, cfg["orient"])
    SMALL_BOX[0] = False
    s = LinearScale().domain([d0, d1])
    from labella import scale as SC

    hist = cfg.get("hist")
    if hist:
        # history on the same scale object before the ticks are asked for: the ticks must be those of the domain the scale
        # reports NOW, whatever was asked of it before
        s.ticks(m)
        s.tickFormat(m)
        if hist == "ticks-nice":
            s.nice(m)
        elif hist == "ticks-copy":
            s.range([5, 9])
            s.clamp(True)
            s2 = s.copy()
            s.domain([d0 + 1000, d1 + 1000])
            s.ticks(m)
            s = s2
        dd = s.domain()
        d0, d1 = dd[0], dd[1]
    rng = SC.d3_scale_linearTickRange(s.domain(), m)
    step = rng[2]
    T = list(s.ticks(m))
    lo, hi = (num(d0), num(d1)) if cfg["orient"] > 0 else (num(d1), num(d0))
    mm = 10 if m is None else m
    info = "m=%s step=%s count=%d" % (m, step, len(T))
    if isinstance(step, (E.SymNum, E.SymFrac)):
        sink.check("step-is-concrete-per-path", False, info=info)
        return
    stepF = Fraction(step)
    sink.check("step-is-1-2-5-times-a-power-of-ten", is_125(stepF, exact=(sink.mode == "sym")), info=info)
    tol = 0 if sink.mode == "sym" else Fraction(1, 10**9) * max(abs(lo), abs(hi), 1)
    if T:
        Tn = [num(t) for t in T]
        sink.check("ticks-are-consecutive-multiples", And(*[abs_le(Tn[i] - Tn[0] - i * stepF, tol) for i in range(len(Tn))]), info=info)
        sink.check("first-tick-is-the-first-multiple-in-domain", And(Tn[0] >= lo - tol, Tn[0] - stepF < lo + tol), info=info)
        sink.check("last-tick-is-the-last-multiple-in-domain", And(Tn[-1] <= hi + tol, Tn[-1] + stepF > hi - tol), info=info)
        if sink.mode == "sym":
            # T_0 is a multiple of the step: T_0 / step is an integer
            q = Tn[0] / stepF
            sink.check("ticks-are-multiples-of-the-step", And(q == q.__floor__()) if isinstance(q, E.SymNum) else Fraction(q).denominator == 1, info=info)
        else:
            q = Tn[0] / stepF
            sink.check("ticks-are-multiples-of-the-step", abs(q - round(q)) <= Fraction(1, 10**6), info=info)
    else:
        # no tick: then no multiple of the step lies in the domain -- never the case when span >= step
        import math as _m

        c = (lo / stepF).__ceil__() if isinstance(lo, E.SymNum) else _m.ceil(lo / stepF - Fraction(1, 10**9))
        sink.check("no-ticks-only-if-no-multiple-in-domain", c * stepF > hi - tol, info=info)
    import math

    sink.check("tick-count-within-bounds", math.floor(0.57 * mm) <= len(T) <= 1.43 * mm + 1, info=info)
    # labels
    fmt = s.tickFormat(m)
    if sink.mode == "sym":
        texts = [fmt(t) for t in T]
        ok = True
        for t, tx in zip(T, texts):
            h = sink.e.holes.get(tx)
            if h is None or not h[1].startswith(".") or not h[1].endswith("f"):
                ok = False
                continue
            nd = int(h[1][1:-1])
            if E.lin_of(h[0]).key() != E.lin_of(t).key():
                ok = False
            # with nd decimals every multiple of the step is printed exactly iff step * 10^nd is an integer
            if (stepF * 10**nd).denominator != 1:
                ok = False
        sink.check("labels-are-exact-decimals-of-their-ticks (hence distinct and within step/1000)", ok, info=info + " format=%s" % (sink.e.holes.get(texts[0], (None, None))[1] if texts else None))
    else:
        texts = [fmt(t) for t in T]
        sink.check("labels-distinct", len(set(texts)) == len(texts), info=info + " %s" % texts[:4])
        sink.check("labels-read-back-within-step/1000", all(abs(Fraction(tx) - Fraction(t)) <= stepF / 1000 for tx, t in zip(texts, T)), info=info + " %s" % texts[:4])


def abs_le(x, tol):
    if tol == 0:
        return x == 0
    return And(x <= tol, -x <= tol)


def nice_props(sink, cfg, val, num):
    from labella.scale import LinearScale
    from labella import scale as SC

    m = cfg["m"]
    d0, d1 = domain_vals(sink, val, cfg["orient"])
    s = LinearScale().domain([d0, d1])
    s.nice(m) if m is not None else s.nice()
    n0, n1 = s.domain()
    step = SC.d3_scale_linearTickRange(s.domain(), m)[2]
    info = "m=%s step(new domain)=%s" % (m, step)
    if isinstance(step, (E.SymNum, E.SymFrac)):
        sink.check("step-is-concrete-per-path", False, info=info)
        return
    stepF = Fraction(step)
    D0, D1, N0, N1 = num(d0), num(d1), num(n0), num(n1)
    tol = 0 if sink.mode == "sym" else Fraction(1, 10**9) * max(abs(D0), abs(D1), 1)
    if cfg["orient"] > 0:
        sink.check("never-moves-an-end-inward", And(N0 <= D0 + tol, N1 >= D1 - tol), info=info)
        sink.check("orientation-kept", N0 < N1, info=info)
        sink.check("moves-outward-by-less-than-two-steps", And(D0 - N0 < 2 * stepF, N1 - D1 < 2 * stepF), info=info)
    else:
        sink.check("never-moves-an-end-inward", And(N0 >= D0 - tol, N1 <= D1 + tol), info=info)
        sink.check("orientation-kept", N0 > N1, info=info)
        sink.check("moves-outward-by-less-than-two-steps", And(N0 - D0 < 2 * stepF, D1 - N1 < 2 * stepF), info=info)
    tenth = stepF / 10
    for nm, v in (("first", N0), ("second", N1)):
        q = v / tenth
        if sink.mode == "sym":
            sink.check("end-is-a-multiple-of-a-tenth-of-the-step", And(q == q.__floor__()) if isinstance(q, E.SymNum) else Fraction(q).denominator == 1, info=info + " " + nm)
        else:
            sink.check("end-is-a-multiple-of-a-tenth-of-the-step", abs(q - round(q)) <= Fraction(1, 10**5), info=info + " %s end %s" % (nm, float(v)))


def configs_for(ms, kind):
    out = []
    if kind == "ticks" and 100 not in ms:
        # one large count (the generator must deliver every one of up to 1.43 m + 1 ticks)
        out.append(dict(name="ticks-m100-asc", kind="ticks", m=100, orient=1, weight=100, shards=12))
    for m in ms:
        for o in (1, -1):
            out.append(dict(name="%s-m%s-%s" % (kind, m, "asc" if o > 0 else "desc"), kind=kind, m=m, orient=o, weight=(m or 10), shards=4 if (m or 10) >= 5 else 1))
    if kind == "ticks":
        # histories: ticks()/tickFormat() asked before nice() widens the domain, or before the scale is copied and the original re-domained
        for m, o, h in ((5, 1, "ticks-nice"), (2, -1, "ticks-nice"), (2, 1, "ticks-copy"), (5, -1, "ticks-copy")):
            out.append(dict(name="ticks-hist-%s-m%s-%s" % (h, m, "asc" if o > 0 else "desc"), kind="ticks", m=m, orient=o, hist=h, weight=2 * (m or 10), shards=4))  # domain box: span in [0.5, 5000], end points in [-5000, 5000]
    return out


def run(e, cfg):
    sink = props.SymSink(e)
    val = lambda name, lo, hi: e.real(name, lo, hi)
    (ticks_props if cfg["kind"] == "ticks" else nice_props)(sink, cfg, val, lambda v: v)


def replay(cfg, inputs, check, info, tag):
    sink = props.ConcSink()
    val = lambda name, lo, hi: float(inputs[name])
    try:
        (ticks_props if cfg["kind"] == "ticks" else nice_props)(sink, cfg, val, lambda v: Fraction(v))
    except Exception as ex:
        import traceback

        return dict(violated=True, detail="%s: %s | %s" % (type(ex).__name__, ex, traceback.format_exc()[-300:]), signature="%s:exception" % tag)
    dom = (float(inputs["lo"]), float(inputs["hi"]))
    return dict(violated=bool(sink.bad), detail="; ".join(sink.bad[:3]) + " | %s domain(lo,hi)=%r" % (cfg["name"], dom), signature="%s:%s" % (tag, cfg["kind"]))
