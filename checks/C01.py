"""C01 -- items sharing a layer never overlap and keep the order of their targets."""
from . import layer, forceh

PROPERTY = "C01"
EXPLANATION = (
    "Bounded symbolic execution of the real removeOverlap.removeOverlap + vpsc.Solver (and Node) on ONE layer of n items "
    "with symbolic targets, widths, label spacing and optional symbolic lower/upper bounds; every item kind pattern "
    "(label / label under a stub / stub / stub under a stub) is a configuration. Python floats are modelled as exact "
    "reals with the code's own constants; the only non-linear test (Solver.solve's cost-stationarity loop test) is forked "
    "without feasibility check (superset of real paths). On every path z3 decides: targets non-decreasing along the "
    "sorted layer, positions non-decreasing, positions integral, and for EVERY pair i<j  cur_j - cur_i >= sum of the "
    "required gaps between them - 1 - 1e-6 (gap = half widths + label spacing, or + 2 when both neighbours are stubs), "
    "with, without and with infeasible (even inverted) bounds. The chain form implies the per-pair statement except for "
    "two stubs separated by items narrower than 2 - 2*spacing, which the code's adjacent-pair constraints do not promise."
)
BOUNDS = {
    "quick": dict(items="1..3 (n=3: kinds L,C,S; the stub-under-stub kind T only for n<=2)", value_box="targets/data positions in [-1e4,1e4], widths in (0,1000], spacing in [0,50], lower bound in [-1e4,1e4], upper in [-1e4,3e4] (any order)", lineSpacing="2 (never overridden by Force)", decisions_per_path=4000),
    "thorough": dict(items="1..4 (n=4: kinds L,S, no bound or a lower bound; two bounds with 4 items were measured at about an hour of CPU per configuration and are not registered)", value_box="as quick", decisions_per_path=4000),
}
OUTSIDE = ["layers of more than 4 items (3 in the quick tier)", "IEEE-754 rounding inside the solver (floats are exact reals here)", "widths <= 0", "lineSpacing other than 2"]
ASSUMPTIONS = [
    "Python float arithmetic modelled as exact real arithmetic (constants taken at their exact binary value)",
    "round() = nearest integer, ties to even; list.sort/max/min run natively on proxy comparisons",
    "Solver.solve loop test on the quadratic cost is over-approximated (both outcomes explored)",
    "a layer with arbitrary per-item targets subsumes every layer Force.compute can hand to removeOverlap",
]


def configs(tier):
    return _layer_configs(tier) + _force_configs(tier)


def _force_configs(tier):
    F = forceh.make_configs
    if tier == "quick":
        return F([2, 3]) + F([2], algs=("overlap", "simple"), bounds=((0, 100),), hists=("reconf", "engine2", "stale", "subset", "interleaved"))
    c = F([1, 2, 3], dens=(0.85, 0.5), stubws=(1, 5), bounds=((0, 100), (None, 100), (0, None), (-30, 45)))
    c += F([2], bounds=((0, 100), (None, 100)), hists=("twice", "reconf", "renodes", "engine2", "subset", "stale", "interleaved"))
    c += F([3], algs=("overlap", "simple"), bounds=((0, 100),), hists=("reconf", "engine2", "stale"), shards=4)
    c += F([4], algs=("overlap", "simple"), bounds=((0, 100),), shards=8)
    c += F([2], vpsc="real")  # the real vpsc end to end (no contract stub)
    return c


def _layer_configs(tier):
    if tier == "quick":
        return layer.make_configs([1, 2]) + layer.make_configs([3], kinds="LCS")
    c = layer.make_configs([1, 2, 3])
    # four items: labels and stubs, without / with one bound; two bounds for labels only (sharded)
    c += layer.make_configs([4], walls=("", "l"), kinds="LS", extra=dict(shards=4))
    return c


def run(e, cfg):
    if cfg.get("harness") == "force":
        return forceh.run(e, cfg, "C01")
    return layer.run(e, cfg, "C01")


def replay(cfg, inputs, check, info):
    if cfg.get("harness") == "force":
        return forceh.replay(cfg, inputs, check, info, "C01")
    return layer.replay(cfg, inputs, check, info, "C01")
