"""C09 -- see EXPLANATION."""
from . import props, tlh

PROPERTY = "C09"
NORMAL_FORM_DECIDES = True
ENGINE_OPTS = dict(nl_mode="exact", timeout_ms=60000, max_decisions=20000)
EXPLANATION = (
    "The SVG and the TikZ export are produced from the same symbolic inputs inside one path (same named solver variables) and parsed into the same picture "
    "description; z3 proves: same axis line; box origins within 1 unit and identical sizes; link commands identical and every point equal (both print %.8f), TikZ "
    "pieces continuous; dots within 0.5e-6 (str vs %f); ticks within 1 unit (%.16f vs %i) with identical texts; per-datum colours (dot, link, label background, "
    "label text, border): the rgb triple in SVG equals the value of the 6 hex digits in TikZ, for 3-digit and 6-digit codes, lists and functions; label text in TikZ "
    "is uni2tex of the SVG text. Margins are excluded."
)
BOUNDS = {"quick": dict(data="2..3", colours="two option sets mixing 3/6-digit, case, '#', lists, functions; border on/off"), "thorough": dict(same="all layer configurations")}
OUTSIDE = ["TikZ margins (documented limitation)", "more than 3 data"]
ASSUMPTIONS = ["floats as exact reals", "printf conversions modelled by their contract (%i truncates toward zero, %.Nf is the correctly rounded N-decimal, str() is exact)", "vpsc contract stub in the layered configurations", "datetime modelled by vlib.symdt"]


def configs(tier):
    return tlh.pic_configs(tier, "c09") + EXTRA(tier)


def run(e, cfg):
    tlh.c09(props.SymSink(e), cfg, tlh.sym_val(e), True)


def replay(cfg, inputs, check, info):
    sink = props.ConcSink()
    tlh.c09(sink, cfg, tlh.conc_val(inputs), False)
    return dict(violated=bool(sink.bad), detail="; ".join(sink.bad[:3])[:900] + " | %s inputs=%s" % (cfg["name"], {k: float(v) for k, v in inputs.items() if not k.startswith(("qp", "printed"))}), signature="C09:%s" % cfg["scale"])


def EXTRA(tier):
    return []
