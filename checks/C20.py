"""C20 -- per-label TeX names are unique and colour conversions agree."""
import json
import os
import subprocess
import sys
import time
from fractions import Fraction

from vlib import engine as E
from vlib.engine import And, Or, Not, Implies
from vlib.symstr import SymStr

from . import props

PROPERTY = "C20"
EXPLANATION = (
    "int2name: decided by CrossHair 0.0.110 (symbolic execution of the real labella.utils.int2name with z3): for all 0 <= i < j <= 10^6 "
    "(len, name)(i) < (len, name)(j) (strictly increasing in length-then-alphabetical order, hence injective), every character is in A-Z, "
    "name(0) = 'A', and len(name(i)) = L exactly for S_L <= i < S_{L+1} (S_L = 26 + ... + 26^(L-1)): a strictly increasing map between two finite "
    "sets of equal size is the length-then-alphabetical enumeration. 'Confirmed over all paths' is required; a reachability twin (post: False) must be "
    "refuted. Call histories (round 4): from the module state of a fresh process (module-level data of labella.utils is restored at the start of every explored path) "
    "the names asked for in the order i, i+1, i and j, i, j are increasing / repeatable, so a name does not depend on what was asked before. Hex colours: Engine A runs the real hex2rgb / hex2rgbstr / hex2html on a symbolic string of 3 or 6 hex digits (each character a "
    "symbolic code point constrained to 0-9a-fA-F, optional '#'): z3 proves that the triple, the three printed numbers of 'rgb(r, g, b)' (exact "
    "literal shape) and the value of the 6 upper-case digits of hex2html all denote the same colour (also as the second conversion after an arbitrary 3-/6-digit code in the same process), that 3-digit codes equal the digit-doubled "
    "6-digit code, and that hex2html's characters are upper-case hex digits. One query family covers all 22^3 and 22^6 codes."
)
BOUNDS = {"quick": dict(int2name="0 <= i < j <= 10^6, 30 s per condition; call histories (i, i+1, i) and (j, i, j), each starting from the module state of a fresh process", hex="all 3- and 6-digit codes over 0-9a-fA-F, with and without '#'; two-conversion histories 3-then-6 and 6-then-3 digits (6-digit code over 0-9a-f in quick)"), "thorough": dict(int2name="0 <= i < j <= 10^7, 120 s per condition")}
OUTSIDE = ["indices above the stated bound", "non-hex input (undocumented)"]
ASSUMPTIONS = ["CrossHair's model of int / str / chr", "Engine A: int(s, 16) modelled per character class; str.upper() modelled for ASCII"]

HEXCLS = Or


def configs(tier):
    out = []
    for n in (3, 6):
        for hsh in (False, True):
            out.append(dict(name="hex-%d%s" % (n, "-hash" if hsh else ""), n=n, hash=hsh, weight=3 ** n))
    for seq in ([3, 6], [6, 3]):
        out.append(dict(name="hex-history-%s" % "-".join(map(str, seq)), seq=seq, weight=3 ** 9, shards=16, lower_only_6=(tier == "quick")))
    return out


def hist_run(e, cfg):
    """several conversions in ONE process (module state re-created per path): every result must still be right"""
    from vlib import instr

    instr.fresh_import()
    from labella import utils

    sink = props.SymSink(e)
    seq = cfg["seq"]
    for step, n in enumerate(seq):
        s = SymStr.fresh(e, "s%d" % step, n, 0, 127)
        for c in s.cps:
            e.assume(is_hex(c))
            if cfg.get("lower_only_6") and n == 6:
                e.assume(Or(c <= 57, c >= 97))  # quick tier: digits and lower-case letters in the 6-digit code (3^9 -> 27*64 paths)
        code = ("#" + s) if (step % 2 == 0) else s
        dv = []
        for i, c in enumerate(s.cps):
            v = e.integer("s%dv%d" % (step, i), 0, 15)
            e.assume(digit_val_prop(c, v))
            dv.append(v)
        want = [dv[0] * 17, dv[1] * 17, dv[2] * 17] if n == 3 else [dv[0] * 16 + dv[1], dv[2] * 16 + dv[3], dv[4] * 16 + dv[5]]
        rgb = utils.hex2rgb(code)
        sink.check("hex2rgb-value-after-earlier-conversions", isinstance(rgb, tuple) and len(rgb) == 3 and And(*[rgb[k] == want[k] for k in range(3)]), info="step %d (%d digits) of %s" % (step, n, seq))
        h = SymStr.lift(utils.hex2html(code))
        if len(h) != 6:
            sink.check("hex2html-has-6-characters", False, info="step %d" % step)
            continue
        ov = []
        for i, c in enumerate(h.cps):
            v = e.integer("s%dh%d" % (step, i), 0, 15)
            e.assume(digit_val_prop(c, v))
            ov.append(v)
        sink.check("hex2html-denotes-the-same-colour-after-earlier-conversions", And(ov[0] * 16 + ov[1] == want[0], ov[2] * 16 + ov[3] == want[1], ov[4] * 16 + ov[5] == want[2]), info="step %d" % step)
    instr.fresh_import()


def is_hex(c):
    return Or(And(c >= 48, c <= 57), And(c >= 97, c <= 102), And(c >= 65, c <= 70))


def hexval(c):
    """oracle digit value as a piecewise-linear term: independent of the code's int(s, 16) route"""
    return (c >= 48, c <= 57, c - 48), (c >= 97, c <= 102, c - 87), (c >= 65, c <= 70, c - 55)


def digit_val_prop(c, v):
    return And(Implies(And(c >= 48, c <= 57), v == c - 48), Implies(And(c >= 97, c <= 102), v == c - 87), Implies(And(c >= 65, c <= 70), v == c - 55))


def run(e, cfg):
    if cfg.get("seq"):
        return hist_run(e, cfg)
    from labella import utils

    n = cfg["n"]
    s = SymStr.fresh(e, "c", n, 0, 127)
    for c in s.cps:
        e.assume(is_hex(c))
    code = ("#" + s) if cfg["hash"] else s
    sink = props.SymSink(e)
    rgb = utils.hex2rgb(code)
    # oracle values: fresh digit values tied to the characters by the piecewise definition
    dv = []
    for i, c in enumerate(s.cps):
        v = e.integer("v%d" % i, 0, 15)
        e.assume(digit_val_prop(c, v))
        dv.append(v)
    if n == 3:
        want = [dv[0] * 17, dv[1] * 17, dv[2] * 17]
    else:
        want = [dv[0] * 16 + dv[1], dv[2] * 16 + dv[3], dv[4] * 16 + dv[5]]
    sink.check("hex2rgb-is-a-triple", isinstance(rgb, tuple) and len(rgb) == 3)
    sink.check("hex2rgb-value", And(*[rgb[k] == want[k] for k in range(3)]))
    st = utils.hex2rgbstr(code)
    ok = isinstance(st, str)
    holes = []
    if ok:
        import re

        m = re.fullmatch(r"rgb\((@H\d+@), (@H\d+@), (@H\d+@)\)", st)
        ok = bool(m)
        if ok:
            holes = [e.holes[g] for g in m.groups()]
            ok = all(h[1] == "str" for h in holes)
    sink.check("hex2rgbstr-shape rgb(<r>, <g>, <b>)", ok, info=repr(st)[:80])
    if ok:
        sink.check("hex2rgbstr-numbers", And(*[holes[k][0] == want[k] for k in range(3)]))
    h = utils.hex2html(code)
    hh = SymStr.lift(h)
    sink.check("hex2html-has-6-characters", len(hh) == 6, info="len %d" % len(hh))
    if len(hh) == 6:
        sink.check("hex2html-upper-case-hex-digits", And(*[Or(And(c >= 48, c <= 57), And(c >= 65, c <= 70)) for c in hh.cps]))
        ov = []
        for i, c in enumerate(hh.cps):
            v = e.integer("hv%d" % i, 0, 15)
            e.assume(digit_val_prop(c, v))
            ov.append(v)
        sink.check("hex2html-denotes-the-same-colour", And(ov[0] * 16 + ov[1] == want[0], ov[2] * 16 + ov[3] == want[1], ov[4] * 16 + ov[5] == want[2]))


def replay(cfg, inputs, check, info):
    from labella import utils

    if cfg.get("kind") == "int2name":
        i, j = int(inputs["i"]), int(inputs.get("j", inputs["i"]))
        bad = []

        def key(nm):
            return (len(nm), nm)

        if cfg.get("history") == "successor":
            a, b, a2 = utils.int2name(i), utils.int2name(i + 1), utils.int2name(i)
            if not (key(a) < key(b)) or a2 != a:
                bad.append("asked in the order %d, %d, %d int2name gives %r, %r, %r: not increasing in length-then-alphabetical order / not repeatable" % (i, i + 1, i, a, b, a2))
        elif cfg.get("history") == "interleaved":
            b, a, b2 = utils.int2name(j), utils.int2name(i), utils.int2name(j)
            if i < j and (b2 != b or not (key(a) < key(b2))):
                bad.append("asked in the order %d, %d, %d int2name gives %r, %r, %r: a name depends on what was asked before" % (j, i, j, b, a, b2))
        a, b = utils.int2name(i), utils.int2name(j)
        if i < j and not ((len(a), a) < (len(b), b)):
            bad.append("int2name(%d) = %r is not before int2name(%d) = %r in length-then-alphabetical order" % (i, a, j, b))
        for k, nm in ((i, a), (j, b)):
            if not nm or any(not ("A" <= ch <= "Z") for ch in nm):
                bad.append("int2name(%d) = %r is not a non-empty A-Z string" % (k, nm))
            L, S = 1, 0
            while k >= S + 26 ** L:
                S += 26 ** L
                L += 1
            if len(nm) != L:
                bad.append("int2name(%d) = %r has length %d, expected %d" % (k, nm, len(nm), L))
        if utils.int2name(0) != "A":
            bad.append("int2name(0) = %r" % utils.int2name(0))
        return dict(violated=bool(bad), detail="; ".join(bad[:3]), signature="C20:int2name")
    if cfg.get("seq"):
        bad = []
        for step, n in enumerate(cfg["seq"]):
            code = "".join(chr(int(inputs["s%d_%d" % (step, i)])) for i in range(n))
            full = ("#" + code) if step % 2 == 0 else code
            six = code if n == 6 else "".join(ch * 2 for ch in code)
            want = tuple(int(six[k : k + 2], 16) for k in (0, 2, 4))
            if tuple(utils.hex2rgb(full)) != want:
                bad.append("after %d earlier conversions hex2rgb(%r) = %r, expected %r" % (step, full, utils.hex2rgb(full), want))
            if utils.hex2html(full) != six.upper():
                bad.append("after %d earlier conversions hex2html(%r) = %r, expected %r" % (step, full, utils.hex2html(full), six.upper()))
        return dict(violated=bool(bad), detail="; ".join(bad), signature="C20:hex-history")
    n = cfg["n"]
    code = "".join(chr(int(inputs["c_%d" % i])) for i in range(n))
    full = ("#" + code) if cfg["hash"] else code
    six = code if n == 6 else "".join(ch * 2 for ch in code)
    want = tuple(int(six[k : k + 2], 16) for k in (0, 2, 4))
    bad = []
    try:
        if tuple(utils.hex2rgb(full)) != want:
            bad.append("hex2rgb(%r) = %r, expected %r" % (full, utils.hex2rgb(full), want))
        if utils.hex2rgbstr(full) != "rgb(%d, %d, %d)" % want:
            bad.append("hex2rgbstr(%r) = %r" % (full, utils.hex2rgbstr(full)))
        if utils.hex2html(full) != six.upper():
            bad.append("hex2html(%r) = %r, expected %r" % (full, utils.hex2html(full), six.upper()))
    except Exception as ex:
        bad.append("%s: %s" % (type(ex).__name__, ex))
    return dict(violated=bool(bad), detail="; ".join(bad), signature="C20:hex")


CH_SRC = '''
from typing import Tuple
import copy
import types
import labella.utils as _utils

BOUND = %(bound)d

# module-level data of labella.utils as it is in a fresh process: every harness starts from it, so that each explored path is
# a history that begins in a fresh process (and paths do not leak state into each other)
_SNAP = {k: copy.deepcopy(v) for k, v in vars(_utils).items() if not k.startswith("__") and not isinstance(v, (types.ModuleType, types.FunctionType, type))}


def _fresh() -> None:
    for k, v in _SNAP.items():
        setattr(_utils, k, copy.deepcopy(v))


def int2name(i):
    return _utils.int2name(i)



def _len_of(i: int) -> int:
    L = 1
    S = 0
    while i >= S + 26 ** L:
        S += 26 ** L
        L += 1
    return L


def order(i: int, j: int) -> bool:
    """
    pre: 0 <= i < j <= BOUND
    post: _
    """
    _fresh()
    a = int2name(i)
    b = int2name(j)
    return (len(a), a) < (len(b), b)


def alphabet(i: int) -> str:
    """
    pre: 0 <= i <= BOUND
    post: len(_) >= 1 and all(65 <= ord(c) <= 90 for c in _)
    """
    _fresh()
    return int2name(i)


def length(i: int) -> int:
    """
    pre: 0 <= i <= BOUND
    post: _ == _len_of(i)
    """
    _fresh()
    return len(int2name(i))


def first(i: int) -> str:
    """
    pre: i == 0
    post: _ == "A"
    """
    _fresh()
    return int2name(i)


def successor(i: int) -> bool:
    """
    pre: 0 <= i < BOUND
    post: _
    """
    _fresh()
    # history: names asked for in index order (what the TeX writer does), then the first one again
    a = int2name(i)
    b = int2name(i + 1)
    a2 = int2name(i)
    return (len(a), a) < (len(b), b) and a2 == a


def interleaved(i: int, j: int) -> bool:
    """
    pre: 0 <= i < j <= BOUND
    post: _
    """
    _fresh()
    # history: j, i, j: a name never depends on what was asked before
    b = int2name(j)
    a = int2name(i)
    b2 = int2name(j)
    return b2 == b and (len(a), a) < (len(b2), b2)


def witness(i: int, j: int) -> bool:
    """
    pre: 0 <= i < j <= BOUND
    post: False
    """
    _fresh()
    a = int2name(i)
    b = int2name(j)
    return (len(a), a) < (len(b), b)
'''


def precheck(tier):
    from vlib import deps

    deps.ensure(crosshair=True)
    root = os.path.dirname(os.path.dirname(os.path.abspath(__file__)))
    repo = os.environ.get("VERIF_REPO", "/repo")
    work = os.path.join(root, "replays", "crosshair")
    os.makedirs(work, exist_ok=True)
    fn = os.path.join(work, "c20_int2name.py")
    bound = 10**6 if tier == "quick" else 10**7
    open(fn, "w").write(CH_SRC % dict(bound=bound))
    to = 30 if tier == "quick" else 120
    env = dict(os.environ)
    env["PYTHONPATH"] = os.pathsep.join([repo, os.path.join(root, ".deps")])
    t0 = time.time()
    p = subprocess.run([sys.executable, "-m", "crosshair", "check", "--report_all", "--per_condition_timeout", str(to), fn], capture_output=True, text=True, env=env, timeout=to * 8 + 120)
    out = (p.stdout + p.stderr).strip().splitlines()
    res = dict(obligations=6, discharged=0, crosshair_seconds=round(time.time() - t0, 1), crosshair_output=out[:20], findings=[], samples=["order(i,j) 0<=i<j<=%d" % bound, "alphabet(i)", "length(i)", "first(0)", "successor(i): history i, i+1, i", "interleaved(i,j): history j, i, j"])
    # map line numbers of the conditions to function names
    src = (CH_SRC % dict(bound=bound)).splitlines()
    def fn_at(line_no):
        name = None
        for k in range(min(line_no, len(src)) - 1, -1, -1):
            if src[k].startswith("def "):
                name = src[k][4:].split("(")[0]
                break
        return name
    status = {}
    import re

    for line in out:
        m = re.match(r".*c20_int2name\.py:(\d+): (\w+): (.*)", line)
        if not m:
            continue
        f = fn_at(int(m.group(1)))
        status.setdefault(f, []).append((m.group(2), m.group(3)))
    res["status"] = {k: v for k, v in status.items()}
    for f in ("order", "alphabet", "length", "first", "successor", "interleaved"):
        st = status.get(f, [])
        if any(s[0] == "error" for s in st):
            # counterexample: parse "when calling order(25, 50)"
            msg = [s[1] for s in st if s[0] == "error"][0]
            m = re.search(r"when calling \w+\(([^)]*)\)", msg)
            args = [a.strip() for a in m.group(1).split(",")] if m else []
            try:
                vals = [int(a.split("=")[-1]) for a in args]
            except ValueError:
                vals = []
            inp = {"i": str(vals[0])} if vals else {"i": "0"}
            if len(vals) > 1:
                inp["j"] = str(vals[1])
            res["findings"].append((dict(name="crosshair-" + f, kind="int2name", history=f if f in ("successor", "interleaved") else None), dict(check="int2name-" + f, inputs=inp, info=msg[:200])))
        elif any("Confirmed over all paths" in s[1] for s in st):
            res["discharged"] += 1
        else:
            res["failed"] = "CrossHair did not confirm %s over all paths: %s" % (f, st[:2])
    w = status.get("witness", [])
    if not any(s[0] == "error" for s in w):
        res["failed"] = "reachability twin was not refuted (vacuous precondition?): %s" % (w[:2],)
    return res
