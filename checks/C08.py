"""C08 -- see EXPLANATION."""
from . import props, tlh

PROPERTY = "C08"
NORMAL_FORM_DECIDES = True
ENGINE_OPTS = dict(nl_mode="exact", timeout_ms=60000, max_decisions=20000)
EXPLANATION = (
    "Same exploration as C07 (real constructor + export, both back-ends, all four directions, layers forced by an upper bound; vpsc contract stub so that "
    "the separation guaranteed by C01 is available). On the PRINTED rectangles (origins truncated by %i, sizes exact) z3 proves for all symbolic times and "
    "widths: no two boxes intersect; every box lies wholly on the direction's side with its near edge at least layerGap - 1 from the axis; every box of a farther "
    "layer lies wholly beyond every box of a nearer layer. Label spacing is the default 3, layer gaps 60, 3 and 1; default padding and a custom padding whose left+right exceeds top+bottom by 7."
)
BOUNDS = {"quick": dict(data="2..4", layergap="60, 3, 1", spacing="default 3"), "thorough": dict(same="as quick")}
OUTSIDE = ["label spacing below 3 or layer gap below 1 (the statement's own restriction)", "more than 4 data"]
ASSUMPTIONS = ["floats as exact reals", "printf conversions modelled by their contract (%i truncates toward zero, %.Nf is the correctly rounded N-decimal, str() is exact)", "vpsc contract stub in the layered configurations", "datetime modelled by vlib.symdt"]


def configs(tier):
    return tlh.pic_configs(tier, "c08") + EXTRA(tier)


def run(e, cfg):
    tlh.c08(props.SymSink(e), cfg, tlh.sym_val(e), True)


def replay(cfg, inputs, check, info):
    sink = props.ConcSink()
    tlh.c08(sink, cfg, tlh.conc_val(inputs), False)
    return dict(violated=bool(sink.bad), detail="; ".join(sink.bad[:3])[:900] + " | %s inputs=%s" % (cfg["name"], {k: float(v) for k, v in inputs.items() if not k.startswith(("qp", "printed"))}), signature="C08:%s" % cfg["scale"])


def EXTRA(tier):
    return []
