"""C07 -- see EXPLANATION."""
from . import props, tlh

PROPERTY = "C07"
NORMAL_FORM_DECIDES = True
ENGINE_OPTS = dict(nl_mode="exact", timeout_ms=60000, max_decisions=20000)
EXPLANATION = (
    "Bounded symbolic execution of the real TimelineSVG / TimelineTex constructor and export() (Timeline.*, Renderer.layout/getWayPoints/generatePath, "
    "the path helpers, Node, Force/Distributor/removeOverlap, scale calls, utils, tex.uni2tex); numbers printed into the document become hole tokens whose "
    "term and conversion (%i = truncation, %.Nf = correctly rounded decimals, str = exact) are recorded; the SVG is parsed by ElementTree, the TikZ by a "
    "line grammar, and z3 decides every geometric clause for all symbolic times and widths: exactly one dot, link and box per datum (items are matched to "
    "the caller's data through tl.nodes[i].data.data); the axis line spans the full length; each dot sits on the axis line at L*(time - d0)/(d1 - d0) "
    "for the datum's time as supplied (explicit non-round domains [3, 88] and 2021-01-25 06:00 .. 2021-03-05 18:30 must be used as given; derived domains "
    "use the domain the scale reports); ticks sit at the same affine map of the scale's tick values and carry tickFormat(value); each link is M, then per "
    "hop (every stub from the axis outward, then the label) a curve to the hop's position followed by a straight stub segment, strictly moving away from "
    "the axis, continuous (every TikZ piece starts where the previous ended), starting at its own dot and ending within 1 unit (integer truncation of the box "
    "origin) of the middle of the axis-facing edge of the box drawn for the same datum; box size = datum size + padding (swapped for left/right); box text = the "
    "datum's text (through ElementTree escaping; uni2tex image for TikZ)."
)
BOUNDS = {"quick": dict(data="2 (3 with layers / derived shapes)", value_box="times inside the explicit domain, widths in [1,120]", directions="all four", layers="overlap and simple with maxPos=120 (vpsc contract stub); three layers: five labels of width 60 under maxPos=130 with three times pinned (30, 40, 55) and two symbolic"), "thorough": dict(same="all layer configurations; three layers with all five times symbolic")}
OUTSIDE = ["labels without explicit width (LaTeX)", "TikZ margins", "more than 3 data", "symbolic sizes / padding / margins (defaults are used)", "for text labels drawn left/right the code adds top+bottom padding to the width and left+right to the height: either assignment is accepted"]
ASSUMPTIONS = ["floats as exact reals", "printf conversions modelled by their contract (%i truncates toward zero, %.Nf is the correctly rounded N-decimal, str() is exact)", "vpsc contract stub in the layered configurations", "datetime modelled by vlib.symdt"]


def configs(tier):
    return tlh.pic_configs(tier, "c07") + EXTRA(tier)


def run(e, cfg):
    tlh.c07(props.SymSink(e), cfg, tlh.sym_val(e), True)


def replay(cfg, inputs, check, info):
    sink = props.ConcSink()
    tlh.c07(sink, cfg, tlh.conc_val(inputs), False)
    return dict(violated=bool(sink.bad), detail="; ".join(sink.bad[:3])[:900] + " | %s inputs=%s" % (cfg["name"], {k: float(v) for k, v in inputs.items() if not k.startswith(("qp", "printed"))}), signature="C07:%s" % cfg["scale"])


def EXTRA(tier):
    return []
