"""C05 -- the separation-constraint solver returns a feasible, certified-optimal solution."""
import itertools
from fractions import Fraction

from vlib import engine as E
from vlib.engine import And, Or, Not, Implies

from . import props

PROPERTY = "C05"
EXPLANATION = (
    "Bounded symbolic execution of ALL of labella/vpsc.py driven directly (Solver(vs, cs).solve()): desired positions and gaps are symbolic "
    "reals, the constraint graph, the weights and the scales are concrete per configuration (every forward-edge subset of a DAG on n vertices "
    "plus a duplicated and a transitive edge; weight patterns over {1e-2, 1, 7, 1e10}; scale patterns over {0.5, 1, 4}), which keeps every "
    "position linear in the inputs. On every path z3 proves (feasibility) scale_r*x_r - scale_l*x_l - gap >= -1e-10 - 1e-9 for every constraint; "
    "(optimality) against an independent oracle - fresh reals constrained by the exact KKT system of min sum w_i (x_i - d_i)^2 s.t. the scaled "
    "constraints, unique optimum - every reported position is within TOL of the optimum (TOL = 1e-4/(2*min weight) per constraint + 1e-6: what the "
    "code's own multiplier tolerance -1e-4 can leave un-split), oracle satisfiability checked per path; (cost) the returned cost and sum w (x - d)^2 "
    "of the reported positions are the same polynomial. Cyclic graphs (2- and 3-cycles, symbolic gaps): every path terminates within the decision "
    "bound and every constraint not flagged unsatisfiable has slack >= -1e-10 - 1e-9."
)
BOUNDS = {
    "quick": dict(variables="1..3, 4 (chains, trees, diamond, K2,2), 5 (diamond with a tail)", value_box="desired positions in [-1000,1000], gaps in [0,100]", weights="patterns over {0.01,1,7,1e10}; on 4-variable trees also (10,1,1,2), (1e10,1,1,1), (1,1,1e10,1), (2,1,10,1)", scales="patterns over {0.5,1,4}", decisions_per_path=4000),
    "thorough": dict(variables="1..4 (all 64 forward-edge subsets for n=4 with unit weights), 5 on graphs with undirected cycles (stationary-exit reading)", value_box="as quick"),
}
OUTSIDE = ["more than 4 variables", "weights mixing 1e10 and 0.01 on 4-variable graphs with undirected cycles (inconclusive: the over-approximated cost loop does not converge in exact arithmetic)", "symbolic weights / scales", "equality constraints (unused by labella)", "IEEE rounding", "cost optimality is asserted through position closeness inside the value box, not as a cost inequality (quadratic)"]
ASSUMPTIONS = [
    "floats as exact reals",
    "Solver.solve's loop test on the quadratic cost is over-approximated (both outcomes explored); in the '-stationary' configurations (4-variable cycles with mixed weights, 5 variables) it is instead read as 'continue unless the cost polynomial is unchanged'",
    "KKT characterises the unique optimum of a strictly convex QP (positive weights)",
]

DMAX = 1000
GMAX = 100
WPATS = {3: [(1, 1, 1), (1e10, 1, 1), (1, 7, 0.01), (0.01, 1e10, 1), (7, 1, 1e10)], 2: [(1, 1), (1e10, 1), (0.01, 7), (1, 1e10)], 1: [(1,), (7,)], 4: [(1, 1, 1, 1), (1e10, 1, 7, 0.01)]}
SPATS = {3: [(1, 1, 1), (0.5, 1, 4), (4, 4, 0.5)], 2: [(1, 1), (0.5, 4), (4, 1)], 1: [(1,), (4,)], 4: [(1, 1, 1, 1), (0.5, 1, 4, 1)]}


def fwd_pairs(n):
    return [(i, j) for i in range(n) for j in range(i + 1, n)]


def mk(n, edges, w, s, tag=""):
    return dict(name="vpsc-n%d-e%s-w%s-s%s%s" % (n, "_".join("%d%d" % e for e in edges) or "none", "_".join("%g" % x for x in w), "_".join("%g" % x for x in s), tag), n=n, edges=[list(e) for e in edges], w=list(w), sc=list(s), weight=(3 ** len(edges)) * n)


def configs(tier):
    out = []
    ns = [1, 2, 3]
    for n in ns:
        pairs = fwd_pairs(n)
        for k in range(len(pairs) + 1):
            for es in itertools.combinations(pairs, k):
                for wi, w in enumerate(WPATS[n]):
                    for si, s in enumerate(SPATS[n]):
                        if tier == "quick" and wi and si:
                            continue  # quick: mixed weights with unit scales, mixed scales with unit weights
                        out.append(mk(n, es, w, s))
    # duplicated and redundant (transitive) edges, unit and mixed
    out.append(mk(2, [(0, 1), (0, 1)], (1, 1), (1, 1), "-dup"))
    out.append(mk(3, [(0, 1), (1, 2), (0, 2), (0, 1)], (1, 7, 0.01), (1, 1, 1), "-dup"))
    out.append(mk(3, [(0, 1), (1, 2), (0, 2), (1, 2)], (1, 1, 1), (0.5, 1, 4), "-dup"))
    # n = 4
    p4 = fwd_pairs(4)
    if tier == "quick":
        sel = [[(0, 1), (1, 2), (2, 3)], [(0, 1), (0, 2), (1, 3), (2, 3)], [(0, 1), (2, 3)], [(0, 3), (1, 3), (2, 3)], [(0, 1), (0, 2), (0, 3)]]
        for es in sel:
            out.append(mk(4, es, WPATS[4][0], SPATS[4][0]))
        out.append(mk(4, sel[0], WPATS[4][1], SPATS[4][0]))
        out.append(mk(4, sel[0], WPATS[4][0], SPATS[4][1]))
        # mixed weights on trees (a heavy variable inside a block that must split). The 4-cycle K2,2 with mixed weights is NOT
        # registered: its candidates live on over-approximated cost-loop paths that nlsat does not decide in 30 s (inconclusive)
        for es in [[(0, 1), (1, 2), (2, 3)], [(0, 1), (0, 2), (0, 3)], [(0, 3), (1, 3), (2, 3)], [(0, 1), (1, 2), (1, 3)], [(0, 2), (1, 2), (2, 3)], [(0, 1), (0, 2), (2, 3)]]:
            for wp in [(10, 1, 1, 2), (1e10, 1, 1, 1), (1, 1, 1e10, 1), (2, 1, 10, 1)]:
                out.append(mk(4, es, wp, SPATS[4][0]))
        # trees on 4 vertices with mixed scales (blocks of >= 3 variables whose multipliers need the scale factors)
        trees = [[(0, 1), (1, 2), (2, 3)], [(0, 1), (0, 2), (0, 3)], [(0, 3), (1, 3), (2, 3)], [(0, 1), (1, 2), (1, 3)], [(0, 2), (1, 2), (2, 3)], [(0, 1), (0, 2), (2, 3)]]
        for es in trees:
            for sp in [(0.5, 1, 4, 1), (4, 0.5, 1, 4), (1, 4, 0.5, 0.5), (4, 1, 1, 0.5), (4, 4, 1, 0.5), (0.5, 4, 4, 1)]:
                out.append(mk(4, es, WPATS[4][0], sp))
    else:
        for k in range(len(p4) + 1):
            for es in itertools.combinations(p4, k):
                out.append(mk(4, es, WPATS[4][0], SPATS[4][0]))
        # mixed weights 1e10 / 0.01 on graphs WITH undirected cycles are left out: on the over-approximated cost loop the
        # exact-arithmetic positions keep changing by 1e-100-sized amounts and the path exceeds every decision bound (the real
        # float code terminates at once on the witnesses: replayed); trees and forests are decided
        for es in [[(0, 1), (1, 2), (2, 3)], [(0, 1), (2, 3)], [(0, 3), (1, 3), (2, 3)], [(0, 1), (0, 2), (0, 3)], [(0, 2), (1, 2), (2, 3)], [(0, 1), (1, 2), (1, 3)]]:
            out.append(mk(4, es, WPATS[4][1], SPATS[4][0]))
        # mixed scales: forests only (graphs with undirected cycles produce candidates on over-approximated cost-loop paths that
        # nlsat does not decide: measured inconclusive)
        for es in [[(0, 1), (1, 2), (2, 3)], [(0, 1), (2, 3)], [(0, 3), (1, 3), (2, 3)], [(0, 1), (0, 2), (0, 3)], [(0, 2), (1, 2), (2, 3)], [(0, 1), (1, 2), (1, 3)], [(0, 1), (0, 2), (2, 3)], [(0, 2), (1, 3)]]:
            for sp in [(0.5, 1, 4, 1), (4, 0.5, 1, 4), (1, 4, 0.5, 0.5), (4, 1, 1, 0.5), (4, 4, 1, 0.5), (0.5, 4, 4, 1)]:
                out.append(mk(4, es, WPATS[4][0], sp))
    # graphs with undirected cycles and mixed weights / more variables: decided under the STATIONARY-EXIT reading of solve()'s
    # loop test (it is taken as "continue" whenever the cost polynomial changed; inputs on which the real loop stops because the
    # cost moved by < 1e-4 although positions still changed are outside the claim for these configurations)
    def st(n, es, w, tag, shards=1):
        d = mk(n, es, w, (1,) * n, "-stationary" + tag)
        d.update(policy="stationary", shards=shards, weight=200 * n)
        return d

    k22 = [(0, 2), (0, 3), (1, 2), (1, 3)]
    dia = [(0, 1), (0, 2), (1, 3), (2, 3)]
    k22b = [(1, 2), (1, 3), (0, 2), (0, 3)]  # the same graph, constraints listed in another order (merge order follows the list)
    for wp in [(10, 1, 1, 2), (2, 1, 10, 1), (1, 7, 1, 1), (1, 1, 1, 10), (1, 2, 10, 1), (2, 1, 1, 10)]:
        out.append(st(4, k22, wp, ""))
        out.append(st(4, k22b, wp, "-order2"))
        out.append(st(4, dia, wp, ""))
    out.append(st(5, [(0, 1), (0, 2), (1, 3), (2, 3), (3, 4)], (1,) * 5, "", shards=8))
    if tier != "quick":
        out.append(st(5, [(0, 1), (0, 2), (1, 3), (2, 3), (0, 4), (4, 3)], (1,) * 5, "", shards=16))
        # (6 variables / 7 separations with two undirected cycles was measured beyond 16 minutes on 16 cores: not registered)
    # cycles
    for es, n in [([(0, 1), (1, 0)], 2), ([(0, 1), (1, 2), (2, 0)], 3), ([(0, 1), (1, 2), (2, 0), (0, 2)], 3), ([(0, 1), (1, 0), (1, 2)], 3)]:
        d = mk(n, es, WPATS[n][0], SPATS[n][0], "-cyc")
        d["cyclic"] = True
        out.append(d)
        if tier != "quick":
            d = mk(n, es, WPATS[n][2], SPATS[n][0], "-cyc")
            d["cyclic"] = True
            out.append(d)
    return out


def build(cfg, val):
    from labella import vpsc

    n = cfg["n"]
    d = [val("d%d" % i, -DMAX, DMAX) for i in range(n)]
    g = [val("g%d" % k, 0, GMAX) for k in range(len(cfg["edges"]))]
    vs = [vpsc.Variable(d[i], cfg["w"][i], cfg["sc"][i]) for i in range(n)]
    cs = [vpsc.Constraint(vs[a], vs[b], g[k]) for k, (a, b) in enumerate(cfg["edges"])]
    return vs, cs, d, g


def tol_pos(cfg):
    return Fraction(1, 10**4) / (2 * Fraction(min(cfg["w"]))) * max(1, len(cfg["edges"])) / Fraction(min(cfg["sc"])) + Fraction(1, 10**6)


FEAS_EPS = Fraction(1, 10**10) + Fraction(1, 10**9)


def assert_all(sink, cfg, vs, cs, d, g, ret, num):
    n = cfg["n"]
    W = [Fraction(x) for x in cfg["w"]]
    S = [Fraction(x) for x in cfg["sc"]]
    x = [num(v.position()) for v in vs]
    slacks = []
    for k, (a, b) in enumerate(cfg["edges"]):
        slacks.append(S[b] * x[b] - S[a] * x[a] - num(g[k]))
    if cfg.get("cyclic"):
        sink.check("unflagged-constraints-hold", And(*[slacks[k] >= -FEAS_EPS for k, c in enumerate(cs) if not c.unsatisfiable]), info="flagged=%s" % [bool(c.unsatisfiable) for c in cs])
        return
    sink.check("no-constraint-flagged-unsatisfiable-on-a-DAG", not any(c.unsatisfiable for c in cs))
    sink.check("feasible", And(*[s_ >= -FEAS_EPS for s_ in slacks]))
    # cost reported == cost of reported positions (same polynomial)
    own = 0
    for i in range(n):
        dd = x[i] - num(d[i])
        own = own + dd * dd * cfg["w"][i]
    if sink.mode == "sym":
        sink.check("reported-cost-is-cost-of-positions", And(ret == own))
    else:
        sink.check("reported-cost-is-cost-of-positions", abs(Fraction(ret) - own) <= Fraction(1, 10**6) * (1 + abs(own)), info="returned %r recomputed %r" % (float(ret), float(own)))
    # optimality against the KKT oracle
    tol = tol_pos(cfg)
    if sink.mode == "conc":
        xo = exact_qp_general([num(v) for v in d], W, S, cfg["edges"], [num(v) for v in g])
        if xo is None:
            sink.bad.append("ORACLE-FAILURE no KKT point found")
            return
        for i in range(n):
            if abs(x[i] - xo[i]) > tol:
                sink.bad.append("optimal: variable %d at %s, optimum %s (tolerance %s)" % (i, float(x[i]), float(xo[i]), float(tol)))
        return
    import z3

    e = sink.e
    xs = [z3.Real("xo%d" % i) for i in range(n)]
    lam = [z3.Real("lo%d" % k) for k in range(len(cs))]
    cons = []
    stat = [2 * z3.Q(W[i].numerator, W[i].denominator) * (xs[i] - e.term(d[i])) for i in range(n)]
    for k, (a, b) in enumerate(cfg["edges"]):
        sa, sb = z3.Q(S[a].numerator, S[a].denominator), z3.Q(S[b].numerator, S[b].denominator)
        sl = sb * xs[b] - sa * xs[a] - e.term(g[k])
        cons += [sl >= 0, lam[k] >= 0, z3.Or(lam[k] == 0, sl == 0)]
        stat[a] = stat[a] + lam[k] * sa
        stat[b] = stat[b] - lam[k] * sb
    cons += [st == 0 for st in stat]
    if not e.reachable([], cons):
        e.gap("KKT oracle unsatisfiable on a DAG instance")
    zt = z3.Q(tol.numerator, tol.denominator)
    X = [e.term(v) for v in x]
    good = z3.And(*[z3.And(X[i] - xs[i] <= zt, xs[i] - X[i] <= zt) for i in range(n)])
    e.check_z3("optimal", cons, z3.Not(good))


def run(e, cfg):
    from labella import vpsc

    if cfg.get("policy"):
        e.nl_policy = cfg["policy"]
    vs, cs, d, g = build(cfg, lambda name, lo, hi: e.real(name, lo, hi))
    ret = vpsc.Solver(vs, cs).solve()
    assert_all(props.SymSink(e), cfg, vs, cs, d, g, ret, lambda v: v)


def replay(cfg, inputs, check, info):
    from labella import vpsc
    import signal

    vs, cs, d, g = build(cfg, lambda name, lo, hi: float(inputs[name]))

    def _alarm(*a):
        raise TimeoutError()

    signal.signal(signal.SIGALRM, _alarm)
    signal.alarm(20)
    try:
        ret = vpsc.Solver(vs, cs).solve()
    except TimeoutError:
        return dict(violated=True, detail="solve() did not terminate within 20 s on d=%s g=%s %s" % (d, g, cfg["name"]), signature="C05:nontermination")
    except RecursionError:
        return dict(violated=True, detail="solve() exhausted the recursion limit on d=%s g=%s %s" % (d, g, cfg["name"]), signature="C05:recursion")
    finally:
        signal.alarm(0)
    sink = props.ConcSink()
    assert_all(sink, cfg, vs, cs, d, g, ret, lambda v: Fraction(v))
    return dict(violated=bool(sink.bad), detail="; ".join(sink.bad[:3]) + " | %s d=%s g=%s x=%s" % (cfg["name"], d, g, [v.position() for v in vs]), signature="C05:%s" % ",".join(sorted(set(b.split(":")[0].split(" ")[0] for b in sink.bad))))


def exact_qp_general(d, W, S, edges, g):
    """unique KKT point of  min sum W_i (x_i - d_i)^2  s.t.  S_b x_b - S_a x_a >= g_k, by active-set enumeration"""
    n, m = len(d), len(edges)
    for mask in range(1 << m):
        act = [k for k in range(m) if (mask >> k) & 1]
        # unknowns: x_0..x_{n-1}, lam_k for active k
        na = len(act)
        N = n + na
        A = [[Fraction(0)] * (N + 1) for _ in range(N)]
        for i in range(n):
            A[i][i] = 2 * W[i]
            A[i][N] = 2 * W[i] * d[i]
        for j, k in enumerate(act):
            a, b = edges[k]
            # stationarity: 2W(x-d) + lam*S_a (at a) - lam*S_b (at b) = 0
            A[a][n + j] += S[a]
            A[b][n + j] -= S[b]
            A[n + j][b] += S[b]
            A[n + j][a] -= S[a]
            A[n + j][N] = g[k]
        sol = _gauss(A, N)
        if sol is None:
            continue
        x = sol[:n]
        lam = sol[n:]
        if any(l < 0 for l in lam):
            continue
        if all(S[b] * x[b] - S[a] * x[a] - g[k] >= 0 for k, (a, b) in enumerate(edges)):
            return x
    return None


def _gauss(A, N):
    A = [row[:] for row in A]
    piv_cols = []
    r = 0
    for c in range(N):
        p = None
        for i in range(r, N):
            if A[i][c] != 0:
                p = i
                break
        if p is None:
            continue
        A[r], A[p] = A[p], A[r]
        pv = A[r][c]
        A[r] = [v / pv for v in A[r]]
        for i in range(N):
            if i != r and A[i][c] != 0:
                f = A[i][c]
                A[i] = [vi - f * vr for vi, vr in zip(A[i], A[r])]
        piv_cols.append(c)
        r += 1
    # inconsistent?
    for i in range(r, N):
        if A[i][N] != 0:
            return None
    sol = [Fraction(0)] * N
    for i, c in enumerate(piv_cols):
        sol[c] = A[i][N]
    return sol
