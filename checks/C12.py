"""C12 -- the linear scale is the affine map through its domain and range end points; histories."""
import itertools
from fractions import Fraction

from vlib import engine as E
from vlib.engine import And, Or, Not, Implies

from . import props

PROPERTY = "C12"
ENGINE_OPTS = dict(nl_mode="exact", timeout_ms=30000)
EXPLANATION = (
    "(1) Point-wise: the real LinearScale (domain/range/clamp/rescale, d3_scale_bilinear and the uninterpolate/interpolate lambdas) is "
    "executed on symbolic reals a != b, r0, r1, x, y; products and quotients of symbolic values are kept EXACT (z3 non-linear real "
    "arithmetic). z3 proves: end points map to end points; 2*s((x+y)/2) = s(x)+s(y) (affine); x<y => s(x)<s(y) or > according to the sign of "
    "(b-a)(r1-r0) (strict monotonicity, r0 != r1); invert(scale(x)) = x and scale(invert(y)) = y; with clamp the output stays between the "
    "range end points and equals the unclamped value inside the domain. (2) Histories: every sequence of <= 3 (thorough 4) operations from "
    "{domain, range, clamp, nice(None), nice(5), copy} with symbolic arguments on a scale and its copies; after EVERY operation and for EVERY "
    "live scale, s(s.domain()[i]) = s.range()[i], and an operation on one scale leaves every other scale's reported domain, range and outputs "
    "unchanged. (3) Engine C: bit-precise QF_FP lemmas (IEEE binary64, RNE) translated from the AST of the kernels in scale.py: for all finite "
    "doubles a != b, r0, r1 with magnitudes in {0} u [1e-6,1e9] both end points are mapped EXACTLY, for the plain and the clamping kernel."
)
BOUNDS = {
    "quick": dict(point="a,b,r0,r1,x,y in [-1e9,1e9]", histories="<= 3 operations, domain/range arguments in [-1000,1000] with |b-a| >= 0.01 (log10 window), nice counts {default,5}", fp_lemma="4 lemmas, 120 s each"),
    "thorough": dict(histories="<= 4 operations", fp_lemma="4 lemmas, 900 s each"),
}
OUTSIDE = ["float error magnitudes of affinity/inverse (the statement's 'up to floating-point error'): those clauses are proved over exact reals", "histories longer than 4 operations", "interpolate()/rangeRound() setters"]
ASSUMPTIONS = [
    "floats as exact reals for clauses (1) and (2); clause (3) is bit-precise",
    "floor(log10(x)) modelled by its contract (10^k <= x < 10^(k+1); either neighbour allowed at an exact power of ten)",
]

R = 10**9
OPS = ["domain", "range", "clamp", "nice", "nice5", "copy"]


def configs(tier):
    out = [dict(name="point-%s" % k, kind="point", case=k, weight=5) for k in ("ends", "affine", "monotone", "inverse", "clamp")]
    L = 3 if tier == "quick" else 4
    seqs = []
    for n in range(1, L + 1):
        for seq in itertools.product(OPS, repeat=n):
            if "copy" not in seq:
                continue  # histories without a copy are covered by prefixes of histories with one... and by 'point'
            if n == L and tier == "quick" and seq.count("nice") + seq.count("nice5") > 1:
                continue
            seqs.append(seq)
    for seq in itertools.product(["domain", "range", "clamp", "nice", "nice5"], repeat=2):
        seqs.append(seq)
    for seq in seqs:
        out.append(dict(name="hist-" + "-".join(seq), kind="hist", seq=list(seq), weight=2 ** len(seq) * (4 if "nice" in seq or "nice5" in seq else 1)))
    return out


def mkscale(a, b, r0, r1):
    from labella.scale import LinearScale

    return LinearScale().domain([a, b]).range([r0, r1])


def point(sink, cfg, val, num):
    a, b = val("a", -R, R), val("b", -R, R)
    r0, r1 = val("r0", -R, R), val("r1", -R, R)
    if sink.mode == "sym":
        sink.e.assume(a != b)
    s = mkscale(a, b, r0, r1)
    case = cfg["case"]
    A, B, R0, R1 = num(a), num(b), num(r0), num(r1)
    tol = 0 if sink.mode == "sym" else None
    eq = (lambda u, v: And(u == v)) if sink.mode == "sym" else (lambda u, v: abs(Fraction(u) - Fraction(v)) <= Fraction(1, 10**6) * (1 + abs(Fraction(v))))
    if case == "ends":
        sink.check("first-end-point", eq(num(s(a)), R0))
        sink.check("second-end-point", eq(num(s(b)), R1))
        sink.check("call-equals-scale", eq(num(s.scale(b)), num(s(b))))
    elif case == "affine":
        x, y = val("x", -R, R), val("y", -R, R)
        sink.check("affine-midpoint", eq(2 * num(s((x + y) / 2)), num(s(x)) + num(s(y))))
    elif case == "monotone":
        x, y = val("x", -R, R), val("y", -R, R)
        if sink.mode == "sym":
            sink.e.assume(x < y)
            sink.e.assume(r0 != r1)
        elif not (x < y and r0 != r1):
            return
        sx, sy = num(s(x)), num(s(y))
        up = Or(And(A < B, R0 < R1), And(B < A, R1 < R0))
        sink.check("strictly-monotone", And(Implies(up, sx < sy), Implies(Not(up), sx > sy)))
    elif case == "inverse":
        x = val("x", -R, R)
        if sink.mode == "sym":
            sink.e.assume(r0 != r1)
        elif r0 == r1:
            return
        sink.check("invert-after-scale", eq(num(s.invert(s(x))), num(x)))
        sink.check("scale-after-invert", eq(num(s(s.invert(x))), num(x)))
    elif case == "clamp":
        x = val("x", -R, R)
        u = num(s(x))
        s.clamp(True)
        c = num(s(x))
        X = num(x)
        lo_ok = Or(And(R0 <= c, c <= R1), And(R1 <= c, c <= R0))
        if sink.mode == "conc":
            lo_ok = Or(And(R0 - abs(R0) * Fraction(1, 10**9) <= c, c <= R1 + abs(R1) * Fraction(1, 10**9)), And(R1 - abs(R1) * Fraction(1, 10**9) <= c, c <= R0 + abs(R0) * Fraction(1, 10**9)))
        sink.check("clamped-output-inside-range", lo_ok)
        inside = Or(And(A <= X, X <= B), And(B <= X, X <= A))
        sink.check("clamp-is-identity-inside-domain", Implies(inside, eq(c, u)))
        sink.check("clamp-getter", s.clamp() is True)


def hist(sink, cfg, val, num):
    from labella.scale import LinearScale

    D = 1000
    cnt = [0]

    def fresh_pair(tag):
        cnt[0] += 1
        u, v = val("%s%da" % (tag, cnt[0]), -D, D), val("%s%db" % (tag, cnt[0]), -D, D)
        return u, v

    def nondeg(u, v):
        if sink.mode == "sym":
            sink.e.assume(Or(u - v >= Fraction(1, 100), v - u >= Fraction(1, 100)))

    scales = [LinearScale()]
    eq = (lambda u, v: And(u == v)) if sink.mode == "sym" else (lambda u, v: abs(Fraction(u) - Fraction(v)) <= Fraction(1, 10**6) * (1 + abs(Fraction(v))))
    probe = val("probe", -D, D)

    def snapshot(s):
        return (list(s.domain()), list(s.range()), s.clamp(), s(probe))

    for k, op in enumerate(cfg["seq"]):
        # the operation is applied to the most recently created scale; all others must be unaffected
        tgt = scales[-1]
        before = [snapshot(s) for s in scales[:-1]]
        if op == "domain":
            u, v = fresh_pair("d")
            nondeg(u, v)
            tgt.domain([u, v])
        elif op == "range":
            u, v = fresh_pair("r")
            tgt.range([u, v])
        elif op == "clamp":
            tgt.clamp(True)
        elif op == "nice":
            tgt.nice()
        elif op == "nice5":
            tgt.nice(5)
        elif op == "copy":
            scales.append(tgt.copy())
            # the copy becomes the target of later operations; also operate on the ORIGINAL afterwards in 'copy' + op
        # 1. every live scale maps the end points of the domain it reports to the end points of the range it reports
        for si, s in enumerate(scales):
            dom, rng = s.domain(), s.range()
            for i in (0, 1):
                sink.check("reported-end-points-map", eq(num(s(dom[i])), num(rng[i])), info="after op %d (%s), scale %d, end %d" % (k, op, si, i))
        # 2. other scales unchanged
        for s, b in zip(scales[:-1], before):
            a_ = snapshot(s)
            same = And(*[eq(num(x), num(y)) for x, y in zip(a_[0] + a_[1], b[0] + b[1])]) if len(a_[0]) == len(b[0]) else False
            sink.check("other-scale-unaffected", And(same, a_[2] == b[2], eq(num(a_[3]), num(b[3]))), info="after op %d (%s)" % (k, op))
    # finally: operate on the ORIGINAL and check that the copies are unaffected (the other direction)
    if len(scales) > 1:
        before = [snapshot(s) for s in scales[1:]]
        if not any(o.startswith("nice") for o in cfg["seq"]):
            scales[0].nice()  # (nested floors over the same reals with different steps stall z3's mixed int/real core)
        u, v = fresh_pair("z")
        nondeg(u, v)
        scales[0].domain([u, v])
        for s, b in zip(scales[1:], before):
            a_ = snapshot(s)
            same = And(*[eq(num(x), num(y)) for x, y in zip(a_[0] + a_[1], b[0] + b[1])])
            sink.check("copy-unaffected-by-original", And(same, a_[2] == b[2], eq(num(a_[3]), num(b[3]))))
            dom, rng = s.domain(), s.range()
            for i in (0, 1):
                sink.check("reported-end-points-map", eq(num(s(dom[i])), num(rng[i])), info="copy after the original changed, end %d" % i)


def run(e, cfg):
    sink = props.SymSink(e)
    val = lambda name, lo, hi: e.real(name, lo, hi)
    if cfg["kind"] == "point":
        point(sink, cfg, val, lambda v: v)
    else:
        hist(sink, cfg, val, lambda v: v)


def replay(cfg, inputs, check, info):
    sink = props.ConcSink()
    if cfg.get("kind") == "fp":
        from labella.scale import LinearScale

        a, b, r0, r1 = [float(inputs[k]) for k in ("a", "b", "r0", "r1")]
        s = LinearScale().domain([a, b]).range([r0, r1])
        if cfg.get("clamp"):
            s.clamp(True)
        bad = []
        if s(a) != r0:
            bad.append("scale(domain[0]) = %r != range[0] = %r" % (s(a), r0))
        if s(b) != r1:
            bad.append("scale(domain[1]) = %r != range[1] = %r" % (s(b), r1))
        return dict(violated=bool(bad), detail="; ".join(bad) + " | domain=[%r, %r] range=[%r, %r] clamp=%s" % (a, b, r0, r1, bool(cfg.get("clamp"))), signature="C12:fp-endpoints")
    val = lambda name, lo, hi: float(inputs.get(name, 0))
    num = lambda v: Fraction(v)
    try:
        if cfg["kind"] == "point":
            point(sink, cfg, val, num)
        else:
            hist(sink, cfg, val, num)
    except Exception as ex:  # a crash in a documented operation is a violation of the history clause
        return dict(violated=True, detail="%s: %s" % (type(ex).__name__, ex), signature="C12:exception")
    return dict(violated=bool(sink.bad), detail="; ".join(sink.bad[:3]) + " | %s inputs=%s" % (cfg["name"], {k: float(v) for k, v in inputs.items()}), signature="C12:%s" % cfg["kind"])


def precheck(tier):
    import multiprocessing as mp

    from vlib import fplemma

    to = 120 if tier == "quick" else 900
    with mp.get_context("fork").Pool(4) as p:
        res = p.map(fplemma._one, [(i, to) for i in range(4)])
    out = dict(obligations=len(res), discharged=sum(1 for r in res if r["result"] == "unsat"), lemmas=res, findings=[], samples=[r["name"] for r in res])
    for r in res:
        if r["result"] == "sat":
            cfg = dict(name="fp-lemma", kind="fp", clamp="Clamp" in r["name"])
            out["findings"].append((cfg, dict(check=r["name"], inputs={k: repr(Fraction(v)) and str(Fraction(v)) for k, v in r["model"].items()}, info=None)))
        elif r["result"] != "unsat":
            out["failed"] = "FP lemma undecided within %d s: %s" % (to, r["name"])
    return out
