"""C10 -- a timeline's export depends only on its own data and options."""
from . import props, tlh

PROPERTY = "C10"
NORMAL_FORM_DECIDES = True
ENGINE_OPTS = dict(nl_mode="exact", timeout_ms=60000, max_decisions=20000)
EXPLANATION = (
    "Concrete interleavings (histories) of construct / export operations over 2 (thorough: 3) timelines in ONE process - default time scale or "
    "caller-supplied LinearScale, options omitted / {} / partial, SVG and TikZ, a crowded timeline with neighbouring stubs next to one that sets its "
    "own lineSpacing, two timelines built from ONE caller options dict that contains no scale, pairs of option-less timelines - with symbolic times/widths where the scale is linear; every export is compared with the export of the same timeline alone "
    "after a fresh (instrumented) re-import of all labella modules (the in-process equivalent of a fresh interpreter: module-level state is "
    "re-created). Documents are compared as texts whose printed numbers are hole tokens: identical normal forms of every hole term and identical "
    "text around them decide equality for every value of the path region; a differing pair of terms goes to z3. Exporting twice is part of every history."
)
BOUNDS = {"quick": dict(timelines=2, operations="4..6", data="2..5 per timeline"), "thorough": dict(timelines=3, operations="6..7")}
OUTSIDE = ["4 timelines", "histories longer than 7 operations", "timelines deliberately sharing a caller-supplied scale object"]
ASSUMPTIONS = ["a fresh re-import of labella.* reproduces a fresh process as far as labella's own module state is concerned", "datetime.date.today() is constant during a run"]


def configs(tier):
    return tlh.c10_configs(tier)


def run(e, cfg):
    tlh.c10(props.SymSink(e), cfg, tlh.sym_val(e), True)


def replay(cfg, inputs, check, info):
    sink = props.ConcSink()
    tlh.c10(sink, cfg, tlh.conc_val(inputs), False)
    return dict(violated=bool(sink.bad), detail="; ".join(sink.bad[:2])[:900] + " | %s" % cfg["name"], signature="C10:%s" % cfg["name"])
