"""AST-instrumenting import of labella.* from /repo's CURRENT working tree.

The encoding is regenerated from the source on every run: modules are compiled from the
files on disk through a small semantics-preserving AST pass (see DESIGN.md 2.1):

  a in b / a not in b   -> _sym_in(a, b, neg)      (dict/set membership hashes the key)
  b[a] (load)           -> _sym_getitem(b, a)
  "fmt" % args          -> _sym_fmt(fmt, args)     (printf formatting of symbolic numbers = holes)
  while/for bodies      -> _loop_tick(site)         (unwinding bound, checked not assumed)
  function entry        -> _cov(qualified name)     (evidence: functions executed symbolically)

For concrete operands every helper is the ordinary Python operation.
Module-level shims (float, int, chr, ord, math, datetime, ...) are injected per module by
`vlib.models`.
"""
import ast
import importlib.abc
import importlib.machinery
import importlib.util
import os
import sys

REPO = os.environ.get("VERIF_REPO", "/repo")
COV = set()
LOOPS = {}
LOOP_BOUND = [20000]
SHIMS = {}  # module name -> dict of globals injected before exec


class BoundExceeded(BaseException):
    pass


def _cov(name):
    COV.add(name)


def _loop_tick(site):
    n = LOOPS.get(site, 0) + 1
    LOOPS[site] = n
    if n > LOOP_BOUND[0]:
        from .engine import BoundExceeded as BE

        raise BE("loop %s exceeded %d iterations" % (site, LOOP_BOUND[0]))


def reset_loops():
    LOOPS.clear()


def _sym_in(a, b, neg=False):
    from . import models

    r = models.sym_in(a, b)
    return (not r) if neg else r


def _sym_getitem(b, a):
    from . import models

    return models.sym_getitem(b, a)


def _sym_fmt(f, args):
    from . import models

    return models.sym_fmt(f, args)


def _sym_setitem(b, a, v):
    from . import models

    return models.sym_setitem(b, a, v)


def _sym_join(sep, items):
    from . import symstr

    return symstr.sym_join(sep, items)


class _T(ast.NodeTransformer):
    def __init__(self, mod):
        self.mod = mod
        self.stack = []
        self.nloop = 0

    def _fn(self, node):
        self.stack.append(node.name)
        self.generic_visit(node)
        q = ".".join(self.stack)
        self.stack.pop()
        mark = ast.Expr(ast.Call(ast.Name("_cov", ast.Load()), [ast.Constant(self.mod + "." + q)], []))
        body = node.body
        k = 1 if body and isinstance(body[0], ast.Expr) and isinstance(getattr(body[0], "value", None), ast.Constant) and isinstance(body[0].value.value, str) else 0
        node.body = body[:k] + [mark] + body[k:]
        return node

    visit_FunctionDef = _fn

    def visit_Lambda(self, node):
        self.generic_visit(node)
        return node

    def visit_ClassDef(self, node):
        self.stack.append(node.name)
        self.generic_visit(node)
        self.stack.pop()
        return node

    def _loop(self, node):
        self.generic_visit(node)
        self.nloop += 1
        site = "%s:%d" % (self.mod, node.lineno)
        tick = ast.Expr(ast.Call(ast.Name("_loop_tick", ast.Load()), [ast.Constant(site)], []))
        node.body = [tick] + node.body
        return node

    visit_While = _loop
    visit_For = _loop

    def visit_Compare(self, node):
        self.generic_visit(node)
        if len(node.ops) == 1 and isinstance(node.ops[0], (ast.In, ast.NotIn)):
            return ast.Call(
                ast.Name("_sym_in", ast.Load()),
                [node.left, node.comparators[0], ast.Constant(isinstance(node.ops[0], ast.NotIn))],
                [],
            )
        return node

    def visit_Subscript(self, node):
        self.generic_visit(node)
        if isinstance(node.ctx, ast.Load) and not isinstance(node.slice, ast.Slice):
            return ast.Call(ast.Name("_sym_getitem", ast.Load()), [node.value, node.slice], [])
        return node

    def visit_Call(self, node):
        self.generic_visit(node)
        f = node.func
        if isinstance(f, ast.Attribute) and f.attr == "join" and isinstance(f.value, ast.Constant) and isinstance(f.value.value, str) and len(node.args) == 1 and not node.keywords:
            return ast.Call(ast.Name("_sym_join", ast.Load()), [f.value, node.args[0]], [])
        return node

    def visit_Assign(self, node):
        self.generic_visit(node)
        if len(node.targets) == 1 and isinstance(node.targets[0], ast.Subscript) and not isinstance(node.targets[0].slice, ast.Slice):
            t = node.targets[0]
            return ast.Expr(ast.Call(ast.Name("_sym_setitem", ast.Load()), [t.value, t.slice, node.value], []))
        return node

    def visit_BinOp(self, node):
        self.generic_visit(node)
        if isinstance(node.op, ast.Mod) and isinstance(node.left, ast.Constant) and isinstance(node.left.value, str):
            return ast.Call(ast.Name("_sym_fmt", ast.Load()), [node.left, node.right], [])
        return node


class _Loader(importlib.machinery.SourceFileLoader):
    def source_to_code(self, data, path, *, _optimize=-1):
        tree = ast.parse(data, path)
        tree = _T(os.path.splitext(os.path.basename(path))[0]).visit(tree)
        ast.fix_missing_locations(tree)
        return compile(tree, path, "exec", dont_inherit=True, optimize=_optimize)

    def exec_module(self, module):
        module.__dict__.update(_sym_in=_sym_in, _sym_getitem=_sym_getitem, _sym_fmt=_sym_fmt, _sym_join=_sym_join, _sym_setitem=_sym_setitem, _cov=_cov, _loop_tick=_loop_tick)
        # module-level code must see the datetime model too (e.g. a module constant computed with fromtimestamp())
        from . import symdt

        real_dt = sys.modules.get("datetime")
        sys.modules["datetime"] = symdt.SHIM_MODULE
        try:
            super().exec_module(module)
        finally:
            sys.modules["datetime"] = real_dt
        # shims go in AFTER exec: they replace the names the module imported (math, datetime, ...)
        from . import models

        models.install_shims(module)

    def get_code(self, fullname):
        # never use / write .pyc: always recompile from the working tree
        path = self.get_filename(fullname)
        return self.source_to_code(self.get_data(path), path)


class _Finder(importlib.abc.MetaPathFinder):
    def find_spec(self, name, path, target=None):
        if name != "labella" and not name.startswith("labella."):
            return None
        parts = name.split(".")
        base = os.path.join(REPO, *parts)
        if os.path.isdir(base):
            init = os.path.join(base, "__init__.py")
            return importlib.util.spec_from_file_location(name, init, loader=_Loader(name, init), submodule_search_locations=[base])
        if os.path.exists(base + ".py"):
            return importlib.util.spec_from_file_location(name, base + ".py", loader=_Loader(name, base + ".py"))
        return None


_installed = []


def install():
    """route `import labella...` through the instrumenting loader (idempotent)"""
    if _installed:
        return
    sys.dont_write_bytecode = True
    for k in [k for k in sys.modules if k == "labella" or k.startswith("labella.")]:
        del sys.modules[k]
    f = _Finder()
    sys.meta_path.insert(0, f)
    _installed.append(f)


def fresh_import():
    """drop every labella module so the next import re-executes module level code"""
    for k in [k for k in sys.modules if k == "labella" or k.startswith("labella.")]:
        del sys.modules[k]


def source_digest():
    import hashlib

    h = hashlib.sha256()
    d = os.path.join(REPO, "labella")
    for fn in sorted(os.listdir(d)):
        if fn.endswith(".py"):
            h.update(fn.encode())
            h.update(open(os.path.join(d, fn), "rb").read())
    return h.hexdigest()[:16]
