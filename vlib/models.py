"""Environment models and module-level shims (every stub here is part of every claim that
uses it; DESIGN.md 2.2).  For concrete operands all of them are the real thing."""
import builtins
import math as _math
import re
from fractions import Fraction

from . import engine as E
from .engine import SymNum, SymInt, SymReal, SymBool, SymFrac, Lin, ModelGap, cur


def is_sym(x):
    return isinstance(x, (SymNum, SymBool)) or getattr(x, "__symbolic__", False) is True


# ----------------------------------------------------------------------------------------
# helpers the AST pass calls
# ----------------------------------------------------------------------------------------
class SymKey(object):
    """dictionary key standing for a symbolic value (hashed by identity; compared through .val by the helpers)"""

    def __init__(self, val):
        self.val = val

    def __repr__(self):
        return "SymKey(%r)" % (self.val,)


def _kv(k):
    return k.val if isinstance(k, SymKey) else k


def _has_symkeys(b):
    return isinstance(b, dict) and any(isinstance(k, SymKey) for k in b)


def _same(a, k):
    try:
        r = a == _kv(k)
    except Exception:
        return False
    return r is True or (r is not False and r is not NotImplemented and bool(r))


def sym_in(a, b):
    if (is_sym(a) or _has_symkeys(b)) and isinstance(b, (dict, set, frozenset, tuple, list)):
        for k in list(b):
            if _same(a, k):
                return True
        return False
    return a in b


def sym_getitem(b, a):
    if is_sym(a) or _has_symkeys(b):
        if isinstance(b, dict):
            for k in list(b):
                if _same(a, k):
                    return b[k]
            raise KeyError(a)
        if isinstance(a, SymInt):
            return b[a.__index__()]
    return b[a]


def sym_setitem(b, a, v):
    if isinstance(b, dict) and (is_sym(a) or _has_symkeys(b)):
        for k in list(b):
            if _same(a, k):
                b[k] = v
                return
        b[SymKey(a) if is_sym(a) else a] = v
        return
    if isinstance(a, SymInt) and isinstance(b, list):
        a = a.__index__()
    b[a] = v


_FMT = re.compile(r"%(?:\((\w+)\))?([#0\- +]*)(\*|\d+)?(?:\.(\*|\d+))?([hlL])?([diouxXeEfFgGcrsa%])")


def sym_fmt(f, args):
    tup = args if isinstance(args, tuple) else (args,)
    if not any(is_sym(a) for a in tup):
        return f % args
    out = []
    pos = 0
    ai = 0
    for m in _FMT.finditer(f):
        out.append(f[pos : m.start()])
        pos = m.end()
        if m.group(6) == "%":
            out.append("%")
            continue
        if m.group(1):
            raise ModelGap("mapping-key printf format with symbolic args")
        a = tup[ai]
        ai += 1
        spec = m.group(0)
        if is_sym(a):
            if isinstance(a, SymInt) and spec in ("%X", "%x"):
                from .symstr import hex_digits

                out.append(hex_digits(a, spec == "%X"))
            elif isinstance(a, SymNum):
                out.append(cur().format_hole(a, spec))
            elif hasattr(a, "__sym_format__"):
                out.append(a.__sym_format__(spec))
            else:
                raise ModelGap("printf of %r" % type(a))
        else:
            out.append(spec % (a,))
    out.append(f[pos:])
    if ai != len(tup):
        raise TypeError("not all arguments converted during string formatting")
    return _join(out)


def _join(parts):
    # parts may contain SymStr pieces (vlib.symstr); plain str otherwise
    if all(isinstance(p, str) for p in parts):
        return "".join(parts)
    from .symstr import SymStr

    r = SymStr.lift("")
    for p in parts:
        r = r + p
    return r


# ----------------------------------------------------------------------------------------
# math
# ----------------------------------------------------------------------------------------
LOG10_WINDOW = (-13, 14)


class _LogVal(object):
    """math.log(x) of a symbolic positive x; only `/ math.log(10)` then `+ c`, then floor() are modelled"""

    __symbolic__ = True

    def __init__(self, x, base10=False, add=Fraction(0)):
        self.x = x
        self.base10 = base10
        self.addc = add

    def __truediv__(self, o):
        if isinstance(o, float) and abs(o - _math.log(10)) < 1e-15 and not self.base10 and not self.addc:
            return _LogVal(self.x, True)
        raise ModelGap("log(x)/%r" % (o,))

    def __add__(self, o):
        if self.base10 and isinstance(o, (int, float)) and not isinstance(o, bool):
            return _LogVal(self.x, True, self.addc + Fraction(o))
        raise ModelGap("log10(x)+%r" % (o,))

    def __floor__(self):
        if not self.base10:
            raise ModelGap("floor(ln x)")
        if self.addc:
            raise ModelGap("floor(log10(x)+c) of a symbolic x")
        x = self.x
        # contract: floor(log10 x) = k  <=>  10^k <= x < 10^(k+1); at an exact power of ten the
        # float computation may land on k-1 (log(1000)/log(10) = 2.9999999999999996): allow both.
        e = cur()
        lo, hi = LOG10_WINDOW
        for k in range(lo, hi + 1):
            p, q = Fraction(10) ** k, Fraction(10) ** (k + 1)
            if e.branch(E.And(x >= p, x < q)):
                # nondeterministic stub at the exact power: k-1 also allowed
                if e.branch(x == p):
                    if e.branch_nondet("log10 at exact power"):
                        return k - 1
                return k
        raise ModelGap("log10 window %r exceeded" % (LOG10_WINDOW,))


class MathShim(object):
    def __getattr__(self, name):
        return getattr(_math, name)

    @staticmethod
    def floor(x):
        if isinstance(x, (SymNum, _LogVal, SymFrac)):
            return x.__floor__()
        return _math.floor(x)

    @staticmethod
    def ceil(x):
        if isinstance(x, (SymNum, SymFrac)):
            return x.__ceil__()
        return _math.ceil(x)

    @staticmethod
    def log(x, *base):
        if isinstance(x, SymFrac):
            x = x.mat()
        if isinstance(x, SymNum):
            if base:
                raise ModelGap("log with base")
            if cur().branch(x <= 0):
                raise ValueError("math domain error")
            return _LogVal(x)
        return _math.log(x, *base)

    @staticmethod
    def isclose(a, b, rel_tol=1e-09, abs_tol=0.0):
        if not (is_sym(a) or is_sym(b)):
            return _math.isclose(a, b, rel_tol=rel_tol, abs_tol=abs_tol)
        if isinstance(a, SymFrac):
            a = a.mat()
        if isinstance(b, SymFrac):
            b = b.mat()
        # abs(a-b) <= max(rel_tol * max(|a|, |b|), abs_tol), by forks on the signs (exact real arithmetic)
        e = cur()
        d = a - b
        if e.branch(d < 0):
            d = -d
        aa = a if (not isinstance(a, SymNum) or not e.branch(a < 0)) else -a
        if not isinstance(a, SymNum) and a < 0:
            aa = -a
        bb = b if (not isinstance(b, SymNum) or not e.branch(b < 0)) else -b
        if not isinstance(b, SymNum) and b < 0:
            bb = -b
        mx = aa if e.branch(aa >= bb) else bb
        r = E.Or(d <= mx * rel_tol, d <= abs_tol)
        return r if isinstance(r, bool) else e.branch(r)

    @staticmethod
    def trunc(x):
        if isinstance(x, SymNum):
            return x.__trunc__()
        return _math.trunc(x)

    @staticmethod
    def sqrt(x):
        if isinstance(x, SymNum):
            raise ModelGap("sqrt")
        return _math.sqrt(x)


MATH = MathShim()


def shim_float(x=0.0):
    if isinstance(x, (SymReal, SymFrac)):
        return x
    if isinstance(x, SymInt):
        return SymReal(x.lin)
    return builtins.float(x)


def shim_int(x=0, *a):
    if isinstance(x, SymInt):
        return x
    if isinstance(x, SymReal):
        return x.__trunc__()
    if getattr(x, "__symbolic__", False) and hasattr(x, "__sym_int__"):
        return x.__sym_int__(*a)
    return builtins.int(x, *a)


def shim_round(x, nd=None):
    if isinstance(x, (SymNum, SymFrac)):
        return x.__round__(nd)
    return builtins.round(x) if nd is None else builtins.round(x, nd)


def shim_pow(a, b, *m):
    if is_sym(a) or is_sym(b):
        raise ModelGap("pow with symbolic operand")
    if a == 10 and isinstance(b, int) and not isinstance(b, bool) and b < 0 and not m:
        # floats are reals here: 10**-k is the decimal 1/10^k, not the nearest binary64 (whose error, 5e-18
        # relative, is IEEE rounding and outside every claim); keeps tick arithmetic in small exact rationals
        return Fraction(1, 10 ** (-b))
    return builtins.pow(a, b, *m)


def shim_range(*a):
    if not any(isinstance(v, SymNum) for v in a):
        return builtins.range(*a)
    if any(isinstance(v, SymReal) for v in a):
        raise TypeError("'float' object cannot be interpreted as an integer")
    if len(a) == 1:
        start, stop, step = 0, a[0], 1
    elif len(a) == 2:
        start, stop, step = a[0], a[1], 1
    else:
        start, stop, step = a
    if isinstance(step, SymInt):
        step = step.__index__()
    if step == 0:
        raise ValueError("range() arg 3 must not be zero")
    out = []
    r = start
    n = 0
    while (r < stop) if step > 0 else (r > stop):  # comparisons fork; the loop is bounded by the decision bound
        out.append(r)
        r = r + step
        n += 1
        if n > 10000:
            raise E.BoundExceeded("symbolic range longer than 10000")
    return out


def _unshim_type(t):
    from . import symstr

    m = {shim_float: builtins.float, shim_int: builtins.int, shim_str: builtins.str, symstr.shim_list: builtins.list, symstr.shim_tuple: builtins.tuple}
    if isinstance(t, tuple):
        return tuple(_unshim_type(u) for u in t)
    try:
        return m.get(t, t)
    except TypeError:
        return t


def shim_isinstance(x, t):
    # proxies answer for the types they stand for
    from . import symdt, symstr

    t = _unshim_type(t)
    if isinstance(x, SymNum):
        ts = t if isinstance(t, tuple) else (t,)
        if builtins.float in ts and isinstance(x, SymReal):
            return True
        if builtins.int in ts and isinstance(x, SymInt):
            return True
    if isinstance(x, symstr.SymStr) and (t is builtins.str or (isinstance(t, tuple) and builtins.str in t)):
        return True

    r = symdt.sym_isinstance(x, t)
    if r is not None:
        return r
    return builtins.isinstance(x, t)


def shim_str(x=""):
    if isinstance(x, SymNum):
        return cur().format_hole(x, "str")
    if isinstance(x, SymFrac):
        return cur().format_hole(x.mat(), "str")
    if getattr(x, "__symbolic__", False) and hasattr(x, "cps"):
        return x
    return builtins.str(x)


def shim_max(*a, **k):
    return builtins.max(*a, **k)


# ----------------------------------------------------------------------------------------
# intervaltree.IntervalTree -- list-backed model of the library contract (3.2.1):
# half-open intervals; overlap(b, e) = {iv : iv.begin < e and iv.end > b}, empty when b >= e;
# addi of a null interval (begin >= end) raises ValueError.
# ----------------------------------------------------------------------------------------
class _Iv(object):
    __slots__ = ("begin", "end", "data")

    def __init__(self, b, e, d):
        self.begin, self.end, self.data = b, e, d


class IntervalTreeModel(object):
    def __init__(self):
        self.ivs = []

    def addi(self, begin, end, data=None):
        if begin >= end:
            raise ValueError("IntervalTree: Null Interval objects not allowed in IntervalTree: Interval(%r, %r)" % (begin, end))
        self.ivs.append(_Iv(begin, end, data))

    def overlap(self, begin, end=None):
        if begin >= end:
            return set()
        out = []
        for iv in self.ivs:
            if iv.begin < end and iv.end > begin:
                out.append(iv)
        return out  # the code only iterates and takes len(): a list keeps the run deterministic


# ----------------------------------------------------------------------------------------
def install_shims(module):
    g = module.__dict__
    name = module.__name__
    if "math" in g:
        g["math"] = MATH
    if "ceil" in g and g["ceil"] is _math.ceil:
        g["ceil"] = MathShim.ceil
    if "IntervalTree" in g:
        g["IntervalTree"] = IntervalTreeModel
    g["float"] = shim_float
    g["int"] = shim_int
    g["round"] = shim_round
    g["pow"] = shim_pow
    g["str"] = shim_str
    g["isinstance"] = shim_isinstance
    g["range"] = shim_range
    from . import symdt, symstr

    symdt.install(module)
    symstr.install(module)
    from . import symuni

    symuni.install(module)
