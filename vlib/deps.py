"""Offline bootstrap: z3-solver (+ crosshair-tool) from the wheelhouse into /verif/.deps"""
import fcntl
import os
import subprocess
import sys

ROOT = os.path.dirname(os.path.dirname(os.path.abspath(__file__)))
DEPS = os.path.join(ROOT, ".deps")
WHEELS = "/opt/veriftools/wheels"


def ensure(crosshair=False):
    marker = os.path.join(DEPS, ".ok-crosshair" if crosshair else ".ok")
    if not os.path.exists(marker):
        os.makedirs(DEPS, exist_ok=True)
        with open(os.path.join(DEPS, ".lock"), "w") as lk:
            fcntl.flock(lk, fcntl.LOCK_EX)
            if not os.path.exists(marker):
                pk = ["z3-solver"] + (["crosshair-tool"] if crosshair else [])
                subprocess.check_call(
                    [sys.executable, "-m", "pip", "install", "-q", "--no-index", "--find-links", WHEELS, "--target", DEPS, "--upgrade"] + pk,
                    stdout=subprocess.DEVNULL,
                )
                open(marker, "w").write("ok\n")
    if DEPS not in sys.path:
        sys.path.insert(0, DEPS)
    pp = os.environ.get("PYTHONPATH", "")
    if DEPS not in pp.split(os.pathsep):
        os.environ["PYTHONPATH"] = DEPS + (os.pathsep + pp if pp else "")


if __name__ == "__main__":
    ensure(crosshair="--crosshair" in sys.argv)
    print("deps ok")
