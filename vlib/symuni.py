"""Model of the two unicodedata functions labella uses, for symbolic characters.  Tables are read from the
running interpreter's unicodedata at start-up ("precompute static tables") and turned into solver relations."""
import builtins
import sys
import unicodedata as _ud

from . import engine as E
from .engine import And, Or, Not, SymInt, ModelGap, cur
from .symstr import SymStr

_T = {}


def tables():
    if _T:
        return _T
    cats = {}
    shapes = {}  # shape key -> list of code points ; canonical2 -> list of (cp, base, mark)
    canon2 = []
    prev = None
    start = 0
    for cp in range(sys.maxunicode + 1):
        ch = builtins.chr(cp)
        c = _ud.category(ch)
        if c != prev:
            if prev is not None:
                cats.setdefault(prev, []).append((start, cp - 1))
            prev, start = c, cp
        d = _ud.decomposition(ch)
        if d:
            parts = d.split()
            if parts[0].startswith("<"):
                key = ("tag", len(parts))
            elif len(parts) == 2:
                key = ("canon2",)
                canon2.append((cp, int(parts[0], 16), int(parts[1], 16)))
            else:
                key = ("canon", len(parts))
            shapes.setdefault(key, []).append(cp)
    cats.setdefault(prev, []).append((start, sys.maxunicode))
    _T.update(cats=cats, shapes={k: _intervals(v) for k, v in shapes.items()}, canon2=canon2)
    return _T


_NORM = {}


def norm_table(form):
    if form in _NORM:
        return _NORM[form]
    changed = []
    by_len = {}
    for cp in range(sys.maxunicode + 1):
        if 0xD800 <= cp <= 0xDFFF:
            continue
        ch = builtins.chr(cp)
        r = _ud.normalize(form, ch)
        if r != ch:
            changed.append(cp)
            by_len.setdefault(len(r), []).append((cp, [builtins.ord(x) for x in r]))
    _NORM[form] = dict(changed=_intervals(changed), by_len=by_len)
    return _NORM[form]


def _intervals(cps):
    out = []
    s = p = None
    for c in cps:
        if s is None:
            s = p = c
        elif c == p + 1:
            p = c
        else:
            out.append((s, p))
            s = p = c
    if s is not None:
        out.append((s, p))
    return out


def in_intervals(c, ivs):
    return Or(*[(c == a) if a == b else And(c >= a, c <= b) for a, b in ivs])


class SymCat(object):
    """result of unicodedata.category(symbolic char): compared against category names"""

    __symbolic__ = True
    __hash__ = None

    def __init__(self, c):
        self.c = c

    def __eq__(self, name):
        if not isinstance(name, str):
            return False
        ivs = tables()["cats"].get(name)
        if not ivs:
            return False
        return in_intervals(self.c, ivs)

    def __ne__(self, name):
        return Not(self.__eq__(name))

    def startswith(self, p):
        names = [n for n in tables()["cats"] if n.startswith(p)]
        r = Or(*[self.__eq__(n) for n in names])
        return r if isinstance(r, bool) else bool(r)


class Field(object):
    """one field of a decomposition string"""

    __symbolic__ = True

    def __init__(self, val=None, tag=False):
        self.val = val
        self.tag = tag

    def startswith(self, p):
        if p == "<":
            return self.tag
        raise ModelGap("Field.startswith(%r)" % (p,))

    def __sym_int__(self, base=10):
        if self.tag:
            raise ValueError("invalid literal for int() with base %d: '<tag>'" % base)
        if base != 16:
            raise ModelGap("int(field, %r)" % (base,))
        return self.val

    def __getitem__(self, k):
        if k == 0 or k == slice(0, 1):
            return "<" if self.tag else "0"
        raise ModelGap("Field index")


class SymDecomp(object):
    """result of unicodedata.decomposition(symbolic char)"""

    __symbolic__ = True

    def __init__(self, c):
        self.c = c
        self._parts = None

    def split(self, *a):
        if a:
            raise ModelGap("split with arguments")
        if self._parts is None:
            self._parts = self._fork()
        return list(self._parts)

    def __bool__(self):
        return len(self.split()) > 0

    def __len__(self):
        raise ModelGap("len(decomposition string)")

    def _fork(self):
        e = cur()
        T = tables()
        c = self.c
        for key, ivs in sorted(T["shapes"].items()):
            cond = in_intervals(c, ivs)
            if cond is False or not e.branch(cond):
                continue
            if key == ("canon2",):
                k = len(e.zvars)
                b = e.integer("dec%d_base" % k, 0, sys.maxunicode)
                m = e.integer("dec%d_mark" % k, 0, sys.maxunicode)
                e.assume(canon2_rel(c, b, m))
                return [Field(b), Field(m)]
            if key[0] == "canon":
                return [Field(e.integer("dec%d_f%d" % (len(e.zvars), i), 0, sys.maxunicode)) for i in range(key[1])]
            return [Field(tag=True)] + [Field(e.integer("dec%d_f%d" % (len(e.zvars), i), 0, sys.maxunicode)) for i in range(key[1] - 1)]
        return []


def canon2_rel(c, b, m, marks=None):
    ents = tables()["canon2"]
    if marks is not None:
        ents = [x for x in ents if x[2] in marks]
    return Or(*[And(c == cp, b == bb, m == mm) for cp, bb, mm in ents])


class UnicodeShim(object):
    def __getattr__(self, name):
        return getattr(_ud, name)

    @staticmethod
    def category(ch):
        if isinstance(ch, SymStr):
            if len(ch) != 1:
                raise TypeError("need a single Unicode character as parameter")
            c = ch.cps[0]
            if isinstance(c, int):
                return _ud.category(builtins.chr(c))
            return SymCat(c)
        return _ud.category(ch)

    @staticmethod
    def normalize(form, s):
        if not isinstance(s, SymStr):
            return _ud.normalize(form, s)
        if all(isinstance(c, int) for c in s.cps):
            return _ud.normalize(form, s.simplify())
        if len(s) != 1:
            raise ModelGap("unicodedata.normalize of a symbolic string longer than 1")
        c = s.cps[0]
        tab = norm_table(form)
        e = cur()
        if not e.branch(in_intervals(c, tab["changed"])):
            return s
        for n, ents in sorted(tab["by_len"].items()):
            cond = Or(*[c == cp for cp, _ in ents]) if len(ents) < 400 else in_intervals(c, _intervals([cp for cp, _ in ents]))
            if e.branch(cond):
                k = len(e.zvars)
                outs = [e.integer("norm%d_%d" % (k, i), 0, sys.maxunicode) for i in range(n)]
                e.assume(Or(*[And(c == cp, *[outs[i] == res[i] for i in range(n)]) for cp, res in ents]))
                return SymStr(outs)
        raise ModelGap("normalize table incomplete")

    @staticmethod
    def decomposition(ch):
        if isinstance(ch, SymStr):
            if len(ch) != 1:
                raise TypeError("need a single Unicode character as parameter")
            c = ch.cps[0]
            if isinstance(c, int):
                return _ud.decomposition(builtins.chr(c))
            return SymDecomp(c)
        return _ud.decomposition(ch)


SHIM = UnicodeShim()


def install(module):
    g = module.__dict__
    if g.get("unicodedata") is _ud:
        g["unicodedata"] = SHIM
