"""pathsym -- dynamic symbolic execution of real Python code with z3 deciding every branch.

A *path* is one execution of a harness body with proxy numbers (SymReal / SymInt) flowing
through the REAL labella functions.  Every proxy carries an exact linear form over solver
variables (Fractions; z3 terms are only built when a branch or assertion needs the solver).
Each path also carries a concrete *witness* (an assignment to the base variables that
satisfies the path condition), so at a new branch one side is known feasible for free and
only the other side costs a solver query (concolic style).  Work items are
(decision prefix, witness); paths are re-executed from the start (no state snapshots).

Verdicts are the solver's: `unsat` of  pc /\\ assumptions /\\ not property  means the property
holds for EVERY value on that path's region; `sat` gives a model that is replayed on the
uninstrumented code by the caller; `unknown` is inconclusive.
"""
import gc
import time
from fractions import Fraction
from math import gcd

import z3

from . import zraw

F0 = Fraction(0)
F1 = Fraction(1)


class ModelGap(BaseException):
    """An operation the model cannot represent soundly: the run is inconclusive."""


class PathAbort(BaseException):
    """Path condition / assumption unsatisfiable: silently drop the path."""


class BoundExceeded(BaseException):
    """Unwinding / decision bound exceeded: the run is inconclusive."""


ENGINE = None  # the engine executing the current path (one per process)
_ATOMS = {}


def cur():
    if ENGINE is None:
        raise ModelGap("no active engine")
    return ENGINE


# ----------------------------------------------------------------------------------------
# linear forms
# ----------------------------------------------------------------------------------------
def _frac(x):
    if isinstance(x, Fraction):
        return x
    if isinstance(x, bool):
        return Fraction(int(x))
    if isinstance(x, int):
        return Fraction(x)
    if isinstance(x, float):
        if x != x or x in (float("inf"), float("-inf")):
            raise ModelGap("non-finite float constant")
        return Fraction(x)  # exact binary value of the literal
    raise ModelGap("cannot convert %r to a rational" % type(x))


class Lin(object):
    """c + sum(coef_v * v); immutable by convention."""

    __slots__ = ("t", "c")

    def __init__(self, t=None, c=F0):
        self.t = t if t is not None else {}
        self.c = c

    @staticmethod
    def const(c):
        return Lin({}, _frac(c))

    @staticmethod
    def var(v):
        return Lin({v: F1}, F0)

    def is_const(self):
        return not self.t

    def add(self, o):
        t = dict(self.t)
        for v, k in o.t.items():
            n = t.get(v, F0) + k
            if n:
                t[v] = n
            else:
                t.pop(v, None)
        return Lin(t, self.c + o.c)

    def sub(self, o):
        t = dict(self.t)
        for v, k in o.t.items():
            n = t.get(v, F0) - k
            if n:
                t[v] = n
            else:
                t.pop(v, None)
        return Lin(t, self.c - o.c)

    def scale(self, k):
        if not k:
            return Lin({}, F0)
        return Lin({v: c * k for v, c in self.t.items()}, self.c * k)

    def neg(self):
        return Lin({v: -c for v, c in self.t.items()}, -self.c)

    def eval(self, w):
        s = self.c
        for v, k in self.t.items():
            s += k * w[v]
        return s

    def key(self):
        return (tuple(sorted(self.t.items())), self.c)

    def __repr__(self):
        parts = ["%s*v%d" % (k, v) for v, k in sorted(self.t.items())]
        parts.append(str(self.c))
        return " + ".join(parts)


# ----------------------------------------------------------------------------------------
# boolean formulas over linear atoms
# ----------------------------------------------------------------------------------------
class SymBool(object):
    """Formula tree: ('le', lin) lin<=0 | ('lt', lin) | ('eq', lin) | ('and', [..]) | ('or', [..])
    | ('not', f) | ('z3', term, evalfn)"""

    __slots__ = ("op", "a")

    def __init__(self, op, a):
        self.op = op
        self.a = a

    # -- evaluation on a witness
    def eval(self, w):
        op = self.op
        if op == "le":
            return self.a.eval(w) <= 0
        if op == "lt":
            return self.a.eval(w) < 0
        if op == "eq":
            return self.a.eval(w) == 0
        if op == "and":
            return all(x.eval(w) for x in self.a)
        if op == "or":
            return any(x.eval(w) for x in self.a)
        if op == "not":
            return not self.a.eval(w)
        if op == "const":
            return self.a
        raise ModelGap("eval of opaque formula")

    def vars(self, acc=None):
        acc = set() if acc is None else acc
        if self.op in ("le", "lt", "eq"):
            acc.update(self.a.t)
        elif self.op in ("and", "or"):
            for x in self.a:
                x.vars(acc)
        elif self.op == "not":
            self.a.vars(acc)
        return acc

    def raw(self, E):
        op = self.op
        if op in ("le", "lt", "eq"):
            return E.atom_raw(self.a, op)
        if op == "and":
            return zraw.and_([x.raw(E) for x in self.a])
        if op == "or":
            return zraw.or_([x.raw(E) for x in self.a])
        if op == "not":
            return zraw.not_(self.a.raw(E))
        if op == "const":
            return zraw.true() if self.a else zraw.false()
        raise ModelGap("z3 of %s" % op)

    def z3(self, E):
        return zraw.wrap_bool(self.raw(E))

    def __bool__(self):
        return cur().branch(self)

    def __and__(self, o):
        return And(self, o)

    __rand__ = __and__

    def __or__(self, o):
        return Or(self, o)

    __ror__ = __or__

    def __invert__(self):
        return Not(self)

    def __repr__(self):
        return "SymBool(%s %r)" % (self.op, self.a)


def _b(x):
    if isinstance(x, SymBool):
        return x
    if isinstance(x, bool):
        return SymBool("const", x)
    raise ModelGap("not a boolean: %r" % type(x))


def And(*xs):
    out = []
    for x in xs:
        if isinstance(x, (list, tuple)):
            x = And(*x)
        if x is True:
            continue
        if x is False:
            return False
        x = _b(x)
        if x.op == "const":
            if not x.a:
                return False
            continue
        out.append(x)
    if not out:
        return True
    if len(out) == 1:
        return out[0]
    return SymBool("and", out)


def Or(*xs):
    out = []
    for x in xs:
        if isinstance(x, (list, tuple)):
            x = Or(*x)
        if x is False:
            continue
        if x is True:
            return True
        x = _b(x)
        if x.op == "const":
            if x.a:
                return True
            continue
        out.append(x)
    if not out:
        return False
    if len(out) == 1:
        return out[0]
    return SymBool("or", out)


def Not(x):
    if isinstance(x, bool):
        return not x
    x = _b(x)
    if x.op == "const":
        return not x.a
    if x.op == "not":
        return x.a
    return SymBool("not", x)


def Implies(a, b):
    return Or(Not(a), b)


def _cmp(l, op):
    """l op 0 with constant folding -> bool or SymBool"""
    if not l.t:
        if op == "le":
            return l.c <= 0
        if op == "lt":
            return l.c < 0
        return l.c == 0
    return SymBool(op, l)


# ----------------------------------------------------------------------------------------
# numeric proxies
# ----------------------------------------------------------------------------------------
def _isnum(x):
    return isinstance(x, (int, float, Fraction, SymNum, SymBool))  # SymFrac is handled by its own (reflected) operators


def lin_of(x):
    if isinstance(x, SymNum):
        return x.lin
    if isinstance(x, SymBool):
        return Lin.const(1 if cur().branch(x) else 0)  # bool used as a number: decide it on the path
    return Lin.const(x)


def is_intlike(x):
    return isinstance(x, (SymInt, SymBool)) or (isinstance(x, int))


class SymNum(object):
    __slots__ = ("lin",)
    __hash__ = None

    def __init__(self, lin):
        self.lin = lin

    # ---- arithmetic
    def _mk(self, lin, o):
        if isinstance(self, SymInt) and is_intlike(o):
            return SymInt(lin)
        return SymReal(lin)

    def __add__(self, o):
        if not _isnum(o):
            return NotImplemented
        return self._mk(self.lin.add(lin_of(o)), o)

    __radd__ = __add__

    def __sub__(self, o):
        if not _isnum(o):
            return NotImplemented
        return self._mk(self.lin.sub(lin_of(o)), o)

    def __rsub__(self, o):
        if not _isnum(o):
            return NotImplemented
        return self._mk(lin_of(o).sub(self.lin), o)

    def __mul__(self, o):
        if not _isnum(o):
            return NotImplemented
        a, b = self.lin, lin_of(o)
        if not b.t:
            return self._mk(a.scale(b.c), o)
        if not a.t:
            return self._mk(b.scale(a.c), o)
        return self._mk(cur().nl_product(a, b, isinstance(self, SymInt) and is_intlike(o)), o)

    __rmul__ = __mul__

    def __truediv__(self, o):
        if not _isnum(o):
            return NotImplemented
        return _div(self.lin, lin_of(o))

    def __rtruediv__(self, o):
        if not _isnum(o):
            return NotImplemented
        return _div(lin_of(o), self.lin)

    def __neg__(self):
        return type(self)(self.lin.neg())

    def __pos__(self):
        return self

    def __abs__(self):
        return type(self)(cur().aux_abs(self.lin, isinstance(self, SymInt)))

    # ---- comparisons
    def __lt__(self, o):
        if not _isnum(o):
            return NotImplemented
        return _cmp(self.lin.sub(lin_of(o)), "lt")

    def __le__(self, o):
        if not _isnum(o):
            return NotImplemented
        return _cmp(self.lin.sub(lin_of(o)), "le")

    def __gt__(self, o):
        if not _isnum(o):
            return NotImplemented
        return _cmp(lin_of(o).sub(self.lin), "lt")

    def __ge__(self, o):
        if not _isnum(o):
            return NotImplemented
        return _cmp(lin_of(o).sub(self.lin), "le")

    def __eq__(self, o):
        if not _isnum(o):
            return NotImplemented if isinstance(o, SymFrac) else False
        return _cmp(self.lin.sub(lin_of(o)), "eq")

    def __ne__(self, o):
        if not _isnum(o):
            return NotImplemented if isinstance(o, SymFrac) else True
        return Not(_cmp(self.lin.sub(lin_of(o)), "eq"))

    def __bool__(self):
        r = Not(_cmp(self.lin, "eq"))
        return r if isinstance(r, bool) else cur().branch(r)

    # ---- conversions that would silently concretise are model gaps
    def __float__(self):
        raise ModelGap("float() of a symbolic number")

    def __hash_gap__(self):
        raise ModelGap("hash of a symbolic number")

    def __format__(self, spec):
        return cur().format_hole(self, spec)

    def __str__(self):
        return cur().format_hole(self, "str")

    def __repr__(self):
        return "%s(%r)" % (type(self).__name__, self.lin)


def _div(n, d):
    if not d.t:
        if d.c == 0:
            raise ZeroDivisionError("division by zero")
        return SymReal(n.scale(1 / d.c))
    z = _cmp(d, "eq")
    if cur().branch(z):
        raise ZeroDivisionError("float division by zero")
    # exact simplifications: 0/d = 0 and (k*d)/d = k  (d != 0 on this path)
    if not n.t and n.c == 0:
        return SymReal(Lin.const(0))
    if set(n.t) == set(d.t) and n.t:
        v0 = next(iter(d.t))
        k = n.t[v0] / d.t[v0]
        if n.c == k * d.c and all(n.t[v] == k * d.t[v] for v in d.t):
            return SymReal(Lin.const(k))
    pos = cur().branch(_cmp(d.neg(), "lt"))  # d > 0 ?
    return SymFrac(n, d, pos)


class SymFrac(object):
    """k + n/d with a symbolic denominator of known sign, kept as a ratio of two linear forms so that
    scaling by constants and comparisons against constants stay LINEAR (cross-multiplication).
    Anything else materialises an exact quotient variable q with q*d = n."""

    __slots__ = ("n", "d", "pos", "k")
    __hash__ = None
    __symbolic__ = True

    def __init__(self, n, d, pos, k=F0):
        self.n, self.d, self.pos, self.k = n, d, pos, k

    def mat(self):
        q = SymReal(cur().nl_quotient(self.n, self.d))
        return q + self.k if self.k else q

    def _const(self, o):
        if isinstance(o, SymNum):
            return o.lin.c if not o.lin.t else None
        if isinstance(o, bool):
            return Fraction(int(o))
        if isinstance(o, (int, float, Fraction)):
            return _frac(o)
        return None

    def __mul__(self, o):
        c = self._const(o)
        if c is not None:
            return SymFrac(self.n.scale(c), self.d, self.pos, self.k * c) if c else SymReal(Lin.const(0))
        return self.mat() * (o.mat() if isinstance(o, SymFrac) else o)

    __rmul__ = __mul__

    def __truediv__(self, o):
        c = self._const(o)
        if c is not None:
            if c == 0:
                raise ZeroDivisionError("float division by zero")
            return SymFrac(self.n.scale(1 / c), self.d, self.pos, self.k / c)
        return self.mat() / (o.mat() if isinstance(o, SymFrac) else o)

    def __rtruediv__(self, o):
        return o / self.mat()

    def __neg__(self):
        return SymFrac(self.n.neg(), self.d, self.pos, -self.k)

    def __pos__(self):
        return self

    def __add__(self, o):
        c = self._const(o)
        if c is not None:
            return SymFrac(self.n, self.d, self.pos, self.k + c)
        if isinstance(o, SymFrac) and o.d.key() == self.d.key():
            return SymFrac(self.n.add(o.n), self.d, self.pos, self.k + o.k)
        return self.mat() + (o.mat() if isinstance(o, SymFrac) else o)

    __radd__ = __add__

    def __sub__(self, o):
        c = self._const(o)
        if c is not None:
            return SymFrac(self.n, self.d, self.pos, self.k - c)
        if isinstance(o, SymFrac) and o.d.key() == self.d.key():
            return SymFrac(self.n.sub(o.n), self.d, self.pos, self.k - o.k)
        return self.mat() - (o.mat() if isinstance(o, SymFrac) else o)

    def __rsub__(self, o):
        return (-self) + o

    def _rel(self, o, op, swap=False):
        """self op o  (op in lt/le/eq) by cross-multiplication when o is a constant or a ratio over the same denominator"""
        c = self._const(o)
        if c is not None:
            l = self.n.sub(self.d.scale(c - self.k))  # n - (c-k)*d  (sign d) 0
        elif isinstance(o, SymFrac) and o.d.key() == self.d.key():
            l = self.n.sub(o.n).sub(self.d.scale(o.k - self.k))
        else:
            q = self._quadratic_rel(o, op, swap)
            if q is not None:
                return q
            a = self.mat()
            b = o.mat() if isinstance(o, SymFrac) else o
            if swap:
                a, b = b, a
            return {"lt": a < b, "le": a <= b, "eq": a == b}[op]
        if op == "eq":
            return _cmp(l, "eq")
        flip = (not self.pos) != swap
        return _cmp(l.neg() if flip else l, op)

    def _quadratic_rel(self, o, op, swap):
        """c/d  op  alpha*d  with d a positive multiple of an INTEGER-valued form Y:  decided exactly and linearly,
        since for an integer Y >= 0 and rational C:  Y*Y < C  <=>  Y <= isqrt(ceil(C) - 1),  Y*Y <= C  <=>  Y <= isqrt(floor(C))"""
        if not isinstance(o, SymNum) or self.k or self.n.t or op == "eq" or not self.pos:
            return None
        ol, d = o.lin, self.d
        if ol.c or d.c or set(ol.t) != set(d.t) or not d.t:
            return None
        v0 = next(iter(d.t))
        alpha = ol.t[v0] / d.t[v0]
        if alpha <= 0 or any(ol.t[v] != alpha * d.t[v] for v in d.t):
            return None
        e = cur()
        if any(e.vsort[v] != "I" for v in d.t):
            return None
        from math import gcd, isqrt, floor, ceil

        den = 1
        for k in d.t.values():
            den = den * k.denominator // gcd(den, k.denominator)
        g = 0
        for k in d.t.values():
            g = gcd(g, int(k * den))
        beta = Fraction(g, den)  # d = beta * Y, Y integer form with coprime integer coefficients
        Y = d.scale(1 / beta)
        C = self.n.c / (alpha * beta * beta)  # n/d op alpha*d  <=>  n op alpha*beta^2*Y^2  <=>  C op Y^2
        # relation between  n/d  (self) and  alpha*d (o);  swap means  o op self
        strict = op == "lt"
        if not swap:
            # C/.. : self < o  <=>  C < Y^2 (strict) ; self <= o <=> C <= Y^2
            #   Y^2 > C  <=>  Y >= isqrt(floor(C)) + 1 ;  Y^2 >= C  <=>  Y >= isqrt(ceil(C) - 1) + 1   (C > 0)
            if C < 0:
                return True
            bound = isqrt(floor(C)) + 1 if strict else (isqrt(ceil(C) - 1) + 1 if C > 0 else 0)
            return _cmp(Lin.const(bound).sub(Y), "le")
        # o op self:  Y^2 < C (strict)  <=>  Y <= isqrt(ceil(C) - 1) ;  Y^2 <= C  <=>  Y <= isqrt(floor(C))
        if C < 0 or (strict and C <= 0):
            return False
        bound = isqrt(ceil(C) - 1) if strict else isqrt(floor(C))
        return _cmp(Y.sub(Lin.const(bound)), "le")

    def __lt__(self, o):
        return self._rel(o, "lt")

    def __le__(self, o):
        return self._rel(o, "le")

    def __gt__(self, o):
        return self._rel(o, "lt", swap=True)

    def __ge__(self, o):
        return self._rel(o, "le", swap=True)

    def __eq__(self, o):
        if not (_isnum(o) or isinstance(o, SymFrac)):
            return False
        return self._rel(o, "eq")

    def __ne__(self, o):
        if not (_isnum(o) or isinstance(o, SymFrac)):
            return True
        return Not(self._rel(o, "eq"))

    def __bool__(self):
        r = Not(self._rel(0, "eq"))
        return r if isinstance(r, bool) else cur().branch(r)

    def __abs__(self):
        return abs(self.mat())

    def __floor__(self):
        return self.mat().__floor__()

    def __ceil__(self):
        return self.mat().__ceil__()

    def __round__(self, nd=None):
        return self.mat().__round__(nd)

    def __trunc__(self):
        return self.mat().__trunc__()

    def __float__(self):
        raise ModelGap("float() of a symbolic ratio")

    def __format__(self, spec):
        return self.mat().__format__(spec)

    def __str__(self):
        return str(self.mat())

    def __repr__(self):
        return "SymFrac(%s + %r / %r)" % (self.k, self.n, self.d)


class SymReal(SymNum):
    """Python float modelled as an exact real."""

    __slots__ = ()

    def __round__(self, nd=None):
        if nd is None:
            return SymInt(cur().aux_round(self.lin))
        if isinstance(nd, SymInt):
            nd = nd.__index__()
        if not isinstance(nd, int):
            raise ModelGap("round(x, ndigits) with non-integer ndigits")
        # exact-arithmetic reading of round(x, nd): nearest multiple of 10^-nd, ties to even multiple
        p = Fraction(10) ** nd
        return SymReal(cur().aux_round(self.lin.scale(p)).scale(1 / p))

    def __floor__(self):
        return SymInt(cur().aux_floor(self.lin))

    def __ceil__(self):
        return SymInt(cur().aux_floor(self.lin.neg()).neg())

    def __trunc__(self):
        return SymInt(cur().aux_trunc(self.lin))

    def __int__(self):
        raise ModelGap("int() of a symbolic float outside a modelled call")

    def __floordiv__(self, o):
        # float // number = floor(self / o) as a float
        q = self / o
        if isinstance(q, SymFrac):
            q = q.mat()
        return SymReal(cur().aux_floor(q.lin)) if isinstance(q, SymNum) else q

    def __rfloordiv__(self, o):
        q = o / self
        if isinstance(q, SymFrac):
            q = q.mat()
        return SymReal(cur().aux_floor(q.lin)) if isinstance(q, SymNum) else q

    def __mod__(self, o):
        if isinstance(o, (int, float, Fraction)) and not isinstance(o, bool) and o != 0:
            return self - (self // o) * o
        raise ModelGap("float mod by a symbolic value")

    def is_integer(self):
        raise ModelGap("is_integer")


class SymInt(SymNum):
    """Python int (mathematical integer)."""

    __slots__ = ()

    def __round__(self, nd=None):
        return self

    def __floor__(self):
        return self

    def __ceil__(self):
        return self

    def __trunc__(self):
        return self

    def __int__(self):
        raise ModelGap("int() of a symbolic int outside a modelled call")

    def __index__(self):
        return cur().concretize_int(self)

    def __floordiv__(self, o):
        if isinstance(o, int) and not isinstance(o, bool) and o > 0:
            return SymInt(cur().aux_divmod(self.lin, o)[0])
        raise ModelGap("floordiv by non-constant / non-positive")

    def __mod__(self, o):
        if isinstance(o, int) and not isinstance(o, bool) and o > 0:
            return SymInt(cur().aux_divmod(self.lin, o)[1])
        raise ModelGap("mod by non-constant / non-positive")

    def __rfloordiv__(self, o):
        return o // cur().concretize_int(self)

    def __rmod__(self, o):
        if isinstance(o, str):
            return cur().format_percent(o, self)
        return o % cur().concretize_int(self)


# ----------------------------------------------------------------------------------------
# the engine
# ----------------------------------------------------------------------------------------
class Stats(object):
    def __init__(self):
        self.paths = 0
        self.aborted = 0
        self.queries = 0
        self.solver_s = 0.0
        self.branch_points = 0
        self.deferred_forks = 0
        self.checks = 0  # property queries
        self.checks_unsat = 0
        self.checks_concrete = 0
        self.checks_sat = 0
        self.checks_unknown = 0
        self.max_depth = 0
        self.gaps = []
        self.bound_exceeded = 0

    def merge(self, o):
        for k in (
            "paths aborted queries solver_s branch_points deferred_forks checks checks_unsat "
            "checks_concrete checks_sat checks_unknown bound_exceeded"
        ).split():
            setattr(self, k, getattr(self, k) + getattr(o, k))
        self.max_depth = max(self.max_depth, o.max_depth)
        self.gaps.extend(o.gaps)

    def as_dict(self):
        d = dict(self.__dict__)
        d["solver_s"] = round(self.solver_s, 3)
        d["gaps"] = self.gaps[:10]
        return d


class Engine(object):
    def __init__(self, max_decisions=4000, nl_mode="defer", timeout_ms=60000, seed=0, max_findings=12):
        self.max_decisions = max_decisions
        self.max_findings = max_findings
        self.nl_mode = nl_mode  # 'defer' | 'exact'
        self.timeout_ms = timeout_ms
        self.seed = seed
        self.stats = Stats()
        self.findings = []  # candidate counterexamples
        self.samples = []
        self._reset_path([], {})

    # ------------------------------------------------------------------ per-path state
    def _reset_path(self, prefix, witness):
        self.prefix = list(prefix)
        self.idx = 0
        self.solver = z3.Solver()
        self.solver.set("timeout", self.timeout_ms)
        self.solver.set("random_seed", self.seed)
        self.zvars = []  # z3 const per var id
        self.zraw = []
        self.vsort = []  # 'R' | 'I'
        self.vname = []
        self.base = []  # ids of base vars
        self.auxdef = {}  # id -> compute(w) closure
        self.nl = set()  # ids of vars whose definition is deferred (non-linear)
        self.deferred = []  # deferred constraints (SymBool or z3) not asserted
        self.deferred_z3defs = []  # z3 definitions of nl vars (for the nlsat re-query)
        self.w = {}  # witness: id -> Fraction
        self.w0 = dict(witness)  # base-name -> Fraction, used when base vars are created
        self.holes = {}
        self.events = []
        self.inputs = {}  # name -> SymNum for base vars (for reporting models)
        self.assumed = []
        self.memo_round = {}
        self.memo_floor = {}
        self.memo_prod = {}
        self.witness_dirty = False
        self.qp_memo = {}
        self.pm = {}  # per-path scratch memo for the models
        self.model_hints = []
        self.nl_policy = None
        self.ivl = {}  # var id -> (lo, hi) interval known from the value box (None = unbounded)

    # ------------------------------------------------------------------ variables
    def _newvar(self, name, sort):
        i = len(self.zvars)
        zv = z3.Int(name) if sort == "I" else z3.Real(name)
        self.zvars.append(zv)
        self.zraw.append(zv.ast)
        self.vsort.append(sort)
        self.vname.append(name)
        return i

    def real(self, name, lo=None, hi=None, lo_strict=False, hi_strict=False):
        """fresh base real in [lo, hi]"""
        i = self._newvar(name, "R")
        self.base.append(i)
        x = SymReal(Lin.var(i))
        self.inputs[name] = x
        cons = []
        if lo is not None:
            cons.append(x > lo if lo_strict else x >= lo)
        if hi is not None:
            cons.append(x < hi if hi_strict else x <= hi)
        self._init_witness(i, name, cons)
        self.ivl[i] = (None if lo is None else _frac(lo), None if hi is None else _frac(hi))
        for c in cons:
            self.assume(c)
        return x

    def free_reals(self, names):
        """fresh base reals without box (used by contract stubs); the caller constrains them with one assume()"""
        out = []
        for name in names:
            i = self._newvar(name, "R")
            self.base.append(i)
            x = SymReal(Lin.var(i))
            self.inputs[name] = x
            self.w[i] = self.w0.get(name, F0)
            out.append(x)
        return out

    def integer(self, name, lo=None, hi=None):
        i = self._newvar(name, "I")
        self.base.append(i)
        x = SymInt(Lin.var(i))
        self.inputs[name] = x
        cons = []
        if lo is not None:
            cons.append(x >= lo)
        if hi is not None:
            cons.append(x <= hi)
        self._init_witness(i, name, cons)
        self.ivl[i] = (None if lo is None else _frac(lo), None if hi is None else _frac(hi))
        for c in cons:
            self.assume(c)
        return x

    def _init_witness(self, i, name, cons):
        if name in self.w0:
            self.w[i] = self.w0[name]
        else:
            self.w[i] = F0
            # a default of 0 may violate the box; assume() below repairs the witness

    # ------------------------------------------------------------------ z3 term building
    def lin_raw(self, l, force_real=False):
        """raw AST for a linear form; int sorted iff everything is integral (unless force_real)"""
        vs = self.vsort
        allint = (not force_real) and l.c.denominator == 1 and all(vs[v] == "I" and k.denominator == 1 for v, k in l.t.items())
        terms = []
        zv = self.zraw
        for v, k in l.t.items():
            x = zv[v]
            if not allint and vs[v] == "I":
                x = zraw.i2r(x)
            terms.append(x if k == 1 else zraw.mul2(zraw.num(k, allint), x))
        if l.c or not terms:
            terms.append(zraw.num(l.c, allint))
        return zraw.add(terms), allint

    def lin_z3(self, l, force_real=False):
        return zraw.wrap_arith(self.lin_raw(l, force_real)[0])

    def atom_raw(self, l, op):
        names = self.vname
        key = (op, l.c, tuple(sorted((names[v], k) for v, k in l.t.items())))
        r = _ATOMS.get(key)
        if r is not None:
            return r.ast
        # scale to integer coefficients (positive factor keeps the relation)
        den = l.c.denominator
        for k in l.t.values():
            d = k.denominator
            if den % d:
                den = den * d // gcd(den, d)
        if den != 1:
            l = l.scale(Fraction(den))
        vs = self.vsort
        allint = all(vs[v] == "I" for v in l.t)
        zv = self.zraw
        terms = []
        for v, k in l.t.items():
            x = zv[v]
            if not allint and vs[v] == "I":
                x = zraw.i2r(x)
            terms.append(x if k == 1 else zraw.mul2(zraw.num(k, allint), x))
        lhs = zraw.add(terms)
        rhs = zraw.num(-l.c, allint)
        a = zraw.le(lhs, rhs) if op == "le" else (zraw.lt(lhs, rhs) if op == "lt" else zraw.eq(lhs, rhs))
        w = z3.BoolRef(a, zraw.CTX)  # pinned by the cache; the build pool is released by the caller's wrap
        if len(_ATOMS) > 300000:
            _ATOMS.clear()
        _ATOMS[key] = w
        return a

    def atom(self, l, op):
        return zraw.wrap_bool(self.atom_raw(l, op))

    def term(self, x):
        """z3 term of a number (real sorted)"""
        if isinstance(x, SymNum):
            return self.lin_z3(x.lin, force_real=True)
        f = _frac(x)
        return z3.Q(f.numerator, f.denominator)

    # ------------------------------------------------------------------ solver access
    def _check(self, *extra):
        t = time.time()
        self._alt_model = None
        r = self.solver.check(*extra)
        if r == z3.unknown:
            r = self._retry_unknown(extra)
        self.stats.solver_s += time.time() - t
        self.stats.queries += 1
        return r

    def _retry_unknown(self, extra):
        """an `unknown` (time-out) is re-tried on fresh solvers with other seeds and, for non-linear queries, the nlsat
        tactic; the first decided answer is taken (any answer is a sound decision of the same query)"""
        self.stats.__dict__["unknown_retries"] = self.stats.__dict__.get("unknown_retries", 0) + 1
        if self.stats.__dict__["unknown_retries"] > 6:
            return z3.unknown  # a configuration that keeps timing out is reported inconclusive, not retried for hours
        makers = [lambda: z3.Solver(), lambda: z3.Then("simplify", "qfnra-nlsat").solver(), lambda: z3.Solver()]
        for k, mk in enumerate(makers):
            try:
                s2 = mk()
                s2.set("timeout", min(self.timeout_ms, 20000))
                try:
                    s2.set("random_seed", 7 + 13 * k + self.seed)
                except z3.Z3Exception:
                    pass
                for a in self.solver.assertions():
                    s2.add(a)
                r = s2.check(*extra)
            except z3.Z3Exception:
                continue
            if r != z3.unknown:
                if r == z3.sat:
                    self._alt_model = s2.model()
                    self._alt_solver = s2
                return r
        return z3.unknown

    def last_model(self):
        m = getattr(self, "_alt_model", None)
        if m is not None:
            self._alt_model = None
            return m
        return self.solver.model()

    def _model_to_base(self, m):
        out = {}
        for i in self.base:
            v = m.eval(self.zvars[i], model_completion=True)
            out[self.vname[i]] = _z3val(v)
        return out

    def _rebuild_witness(self, basevals):
        for i in self.base:
            self.w[i] = basevals[self.vname[i]]
        for i in sorted(self.auxdef):
            self.w[i] = self.auxdef[i](self.w)

    def assume(self, c):
        """add a constraint to the path condition (harness preconditions, aux definitions)"""
        if c is True:
            return
        if c is False:
            raise PathAbort()
        c = _b(c)
        self.solver.add(c.z3(self))
        self.assumed.append(c)
        try:
            ok = c.eval(self.w)
        except KeyError:
            ok = False
        if not ok:
            if self.idx < len(self.prefix) and False:
                pass
            r = self._check()
            if r == z3.unsat:
                raise PathAbort()
            if r != z3.sat:
                self.gap("solver unknown on assume")
            self._rebuild_witness(self._model_to_base(self.last_model()))

    def gap(self, msg):
        self.stats.gaps.append(msg)
        raise ModelGap(msg)

    # ------------------------------------------------------------------ branching
    def branch(self, cond):
        cond = _b(cond)
        if cond.op == "const":
            return cond.a
        vs = cond.vars()
        if self.nl and (vs & self.nl):
            return self._branch_deferred(cond)
        if self.idx < len(self.prefix):
            d = self.prefix[self.idx]
            self.idx += 1
            self.solver.add(cond.z3(self) if d else z3.Not(cond.z3(self)))
            return d
        if len(self.prefix) >= self.max_decisions:
            self.stats.bound_exceeded += 1
            raise BoundExceeded("decision bound %d" % self.max_decisions)
        self.stats.branch_points += 1
        d = bool(cond.eval(self.w))  # the witness side is feasible for free
        zc = cond.z3(self)
        other = z3.Not(zc) if d else zc
        r = self._check(other)
        if r == z3.sat:
            self.work.append((self.prefix[: self.idx] + [not d], self._model_to_base(self.last_model())))
        elif r != z3.unsat:
            self.gap("solver unknown at branch")
        self.prefix.append(d)
        self.idx += 1
        self.solver.add(zc if d else z3.Not(zc))
        return d

    def _branch_deferred(self, cond):
        """fork on a non-linear test WITHOUT feasibility check; keep it as a deferred constraint.
        Explores a superset of the real paths (sound for 'holds').
        nl_policy == 'stationary' (C05's larger graphs only): the single caller is Solver.solve's loop test
        abs(lastcost - cost) > 1e-4; it is taken as TRUE (continue) whenever the two costs are not the identical
        polynomial, i.e. solve() is assumed to stop only at exact stationarity -- inputs on which the real loop stops
        because the cost moved by less than 1e-4 although positions still changed are then OUTSIDE the claim."""
        if getattr(self, "nl_policy", None) == "stationary":
            self.events.append(("nl-assumed", True))
            self.stats.__dict__["assumed_continue"] = self.stats.__dict__.get("assumed_continue", 0) + 1
            n = self.pm["cost_passes"] = self.pm.get("cost_passes", 0) + 1
            if n > 12:
                raise BoundExceeded("solve() did not reach exact stationarity within 12 passes")
            return True
        if self.idx < len(self.prefix):
            d = self.prefix[self.idx]
        else:
            if len(self.prefix) >= self.max_decisions:
                self.stats.bound_exceeded += 1
                raise BoundExceeded("decision bound")
            d = bool(cond.eval(self.w))
            self.work.append((self.prefix[: self.idx] + [not d], {self.vname[i]: self.w[i] for i in self.base}))
            self.prefix.append(d)
            self.stats.deferred_forks += 1
        self.idx += 1
        self.deferred.append(cond if d else Not(cond))
        self.events.append(("nl", d))
        return d

    def branch_nondet(self, why=""):
        """nondeterministic stub choice: both sides are explored, no condition is recorded"""
        if self.idx < len(self.prefix):
            d = self.prefix[self.idx]
        else:
            if len(self.prefix) >= self.max_decisions:
                raise BoundExceeded("decision bound")
            self.work.append((self.prefix[: self.idx] + [False], {self.vname[i]: self.w[i] for i in self.base}))
            d = True
            self.prefix.append(d)
        self.idx += 1
        self.events.append(("nondet", why, d))
        return d

    def concretize_int(self, x):
        """fork over the feasible values of a symbolic int (used by range(k), indexing, k % n).
        The decision token records the VALUE tried, so re-execution asks the same question."""
        if not x.lin.t:
            return int(x.lin.c)
        guard = 0
        while True:
            guard += 1
            if guard > 64:
                raise BoundExceeded("concretize_int: more than 64 values")
            if self.idx < len(self.prefix):
                v, d = self.prefix[self.idx]
                self.idx += 1
                c = _b(x == v)
                self.solver.add(c.z3(self) if d else z3.Not(c.z3(self)))
            else:
                if len(self.prefix) >= self.max_decisions:
                    raise BoundExceeded("decision bound")
                v = int(x.lin.eval(self.w))
                c = _b(x == v)
                zc = c.z3(self)
                self.stats.branch_points += 1
                r = self._check(z3.Not(zc))
                if r == z3.sat:
                    self.work.append((self.prefix[: self.idx] + [(v, False)], self._model_to_base(self.last_model())))
                elif r != z3.unsat:
                    self.gap("solver unknown at concretize_int")
                d = True
                self.prefix.append((v, True))
                self.idx += 1
                self.solver.add(zc)
            if d:
                return v

    # ------------------------------------------------------------------ auxiliary variables
    def _aux(self, name, sort, compute, nl=False):
        i = self._newvar("%s!%d" % (name, len(self.zvars)), sort)
        self.auxdef[i] = compute
        try:
            self.w[i] = compute(self.w)
        except ZeroDivisionError:
            self.w[i] = F0
        if nl:
            self.nl.add(i)
        return i

    def lin_interval(self, l):
        lo = hi = l.c
        for v, k in l.t.items():
            a, b = self.ivl.get(v, (None, None))
            if k < 0:
                a, b = b, a
            lo = None if (lo is None or a is None) else lo + k * a
            hi = None if (hi is None or b is None) else hi + k * b
        return lo, hi

    def _bound_nl(self, i, lo, hi):
        """interval facts about a deferred non-linear variable are LINEAR and sound: give them to the solver"""
        self.ivl[i] = (lo, hi)
        x = Lin.var(i)
        if lo is not None:
            self.solver.add(_b(_cmp(Lin.const(lo).sub(x), "le")).z3(self))
        if hi is not None:
            self.solver.add(_b(_cmp(x.sub(Lin.const(hi)), "le")).z3(self))

    def _integral_split(self, l, c):
        """l = c*A + B with A an integer-valued form (terms of integer variables whose coefficient is a multiple of c)
        and B the rest; returns (A, B, lo, hi) with the interval of B, or None when unknown"""
        c = Fraction(c)
        A, B = {}, {}
        for v, k in l.t.items():
            if self.vsort[v] == "I" and (k / c).denominator == 1:
                A[v] = k / c
            else:
                B[v] = k
        import math as _m

        ca = Fraction(_m.floor(l.c / c))
        cb = l.c - ca * c
        Bl = Lin(B, cb)
        lo, hi = self.lin_interval(Bl)
        if lo is None or hi is None:
            return None
        # shift whole multiples of c from B into A when B's interval lies inside one period
        sh = Fraction(_m.floor(lo / c))
        if sh and hi - sh * c < c:
            Bl = Lin(B, cb - sh * c)
            ca += sh
            lo, hi = lo - sh * c, hi - sh * c
        return Lin(A, ca), Bl, lo, hi

    def _depends_nl(self, *lins):
        return bool(self.nl) and any((set(l.t) & self.nl) for l in lins)

    def nl_product(self, a, b, isint=False):
        ka, kb = a.key(), b.key()
        key = (ka, kb) if ka <= kb else (kb, ka)
        if key in self.memo_prod:
            return Lin.var(self.memo_prod[key])
        i = self._aux("mul", "I" if isint else "R", lambda w: a.eval(w) * b.eval(w), nl=(self.nl_mode == "defer"))
        self.memo_prod[key] = i
        mk = lambda: self.zvars[i] == self.lin_z3(a) * self.lin_z3(b)
        if self.nl_mode == "defer":
            self.deferred_z3defs.append(mk)
        else:
            self.solver.add(mk())
        (al, ah), (bl, bh) = self.lin_interval(a), self.lin_interval(b)
        if None not in (al, ah, bl, bh):
            c = [al * bl, al * bh, ah * bl, ah * bh]
            lo, hi = min(c), max(c)
            if ka == kb:
                lo = max(lo, F0) if not (al <= 0 <= ah) else F0
            self._bound_nl(i, lo, hi)
        return Lin.var(i)

    def nl_quotient(self, n, d):
        """n/d with d != 0 already on the path"""
        nl = self.nl_mode == "defer"
        key = ("quo", n.key(), d.key())
        if key in self.memo_prod:
            return Lin.var(self.memo_prod[key])
        i = self._aux("quo", "R", lambda w: n.eval(w) / d.eval(w), nl=nl)
        self.memo_prod[key] = i
        mk = lambda: self.zvars[i] * self.lin_z3(d, True) == self.lin_z3(n, True)
        if nl:
            self.deferred_z3defs.append(mk)
        else:
            self.solver.add(mk())
        return Lin.var(i)

    def aux_abs(self, l, isint=False):
        if not l.t:
            return Lin.const(abs(l.c))
        nl = self._depends_nl(l)
        i = self._aux("abs", "I" if isint else "R", lambda w: abs(l.eval(w)), nl=nl)
        a = Lin.var(i)
        if nl:
            def mk():
                zl = self.lin_z3(l)
                return self.zvars[i] == z3.If(zl >= 0, zl, -zl)

            self.deferred_z3defs.append(mk)
        else:
            c = And(_cmp(l.sub(a), "le"), _cmp(l.neg().sub(a), "le"), Or(_cmp(a.sub(l), "eq"), _cmp(a.add(l), "eq")))
            self.solver.add(c.z3(self))
        return a

    def aux_floor(self, l):
        if not l.t:
            import math

            return Lin.const(math.floor(l.c))
        if all(self.vsort[v] == "I" for v in l.t) and l.c.denominator == 1 and all(k.denominator == 1 for k in l.t.values()):
            return l
        if self._depends_nl(l):
            self.gap("floor of a non-linear quantity")
        sp = self._integral_split(l, 1)
        if sp is not None and sp[2] >= 0 and sp[3] < 1:
            return sp[0]  # the fractional rest provably lies in [0, 1): the floor is the integral part (exact, no solver)
        if sp is not None and sp[3] - sp[2] < 2 and sp[1].t:
            # the rest spans at most a few integer cells: FORK on the cell instead of introducing an integer unknown
            import math

            j0, j1 = math.floor(sp[2]), math.floor(sp[3])
            for j in range(j0, j1 + 1):
                if j == j1 or self.branch(_cmp(sp[1].sub(Lin.const(j + 1)), "lt")):
                    return sp[0].add(Lin.const(j))
        k = l.key()
        if k in self.memo_floor:
            return Lin.var(self.memo_floor[k])
        import math

        i = self._aux("floor", "I", lambda w: Fraction(math.floor(l.eval(w))))
        self.memo_floor[k] = i
        lo_, hi_ = self.lin_interval(l)
        self.ivl[i] = (None if lo_ is None else Fraction(math.floor(lo_)), None if hi_ is None else Fraction(math.floor(hi_)))
        f = Lin.var(i)
        # f <= l < f + 1
        c = And(_cmp(f.sub(l), "le"), _cmp(l.sub(f).sub(Lin.const(1)), "lt"))
        self.solver.add(c.z3(self))
        return f

    def aux_trunc(self, l):
        """truncation toward zero (int(), '%i')"""
        if not l.t:
            import math

            return Lin.const(math.trunc(l.c))
        if all(self.vsort[v] == "I" for v in l.t) and l.c.denominator == 1 and all(k.denominator == 1 for k in l.t.values()):
            return l
        if self._depends_nl(l):
            self.gap("trunc of a non-linear quantity")
        import math

        i = self._aux("trunc", "I", lambda w: Fraction(math.trunc(l.eval(w))))
        f = Lin.var(i)
        one = Lin.const(1)
        pos = And(_cmp(l.neg(), "le"), _cmp(f.sub(l), "le"), _cmp(l.sub(f).sub(one), "lt"))
        neg = And(_cmp(l, "lt"), _cmp(l.sub(f), "le"), _cmp(f.sub(l).sub(one), "lt"))
        self.solver.add(Or(pos, neg).z3(self))
        return f

    def aux_round(self, l):
        """Python round(): nearest integer, ties to even"""
        if not l.t:
            return Lin.const(round(l.c))
        if all(self.vsort[v] == "I" for v in l.t) and l.c.denominator == 1 and all(k.denominator == 1 for k in l.t.values()):
            return l
        if self._depends_nl(l):
            self.gap("round of a non-linear quantity")
        k = l.key()
        if k in self.memo_round:
            return Lin.var(self.memo_round[k])
        i = self._aux("round", "I", lambda w: Fraction(round(l.eval(w))))
        h = self._aux("half", "I", lambda w: Fraction(round(l.eval(w)) // 2))
        self.memo_round[k] = i
        r = Lin.var(i)
        hh = Lin.var(h)
        half = Lin.const(Fraction(1, 2))
        # r - 1/2 <= l <= r + 1/2 ; a tie (l == r +- 1/2) only if r is even (r == 2*hh)
        lo = _cmp(r.sub(half).sub(l), "le")
        hi = _cmp(l.sub(r).sub(half), "le")
        tie = Or(_cmp(l.sub(r).sub(half), "eq"), _cmp(l.sub(r).add(half), "eq"))
        even = _cmp(r.sub(hh.scale(Fraction(2))), "eq")
        # hh = floor(r/2): 2hh <= r <= 2hh+1
        hdef = And(_cmp(hh.scale(Fraction(2)).sub(r), "le"), _cmp(r.sub(hh.scale(Fraction(2))).sub(Lin.const(1)), "le"))
        self.solver.add(And(lo, hi, hdef, Implies(tie, even)).z3(self))
        return r

    def aux_divmod(self, l, c):
        """Python floor division / modulo of an int form by a positive constant"""
        if not l.t:
            q, r = divmod(int(l.c), c)
            return Lin.const(q), Lin.const(r)
        if l.c.denominator == 1 and l.c % c == 0 and all(k.denominator == 1 and k % c == 0 and self.vsort[v] == "I" for v, k in l.t.items()):
            return l.scale(Fraction(1, c)), Lin.const(0)  # every term is a multiple of c
        sp = self._integral_split(l, c)
        if sp is not None and sp[2] >= 0 and sp[3] <= c - 1:
            return sp[0], sp[1]  # remainder provably in [0, c): quotient and remainder read off syntactically
        if sp is not None and sp[3] - sp[2] < 2 * c and sp[1].t:
            import math

            j0, j1 = math.floor(sp[2] / c), math.floor(sp[3] / c)
            for j in range(j0, j1 + 1):
                if j == j1 or self.branch(_cmp(sp[1].sub(Lin.const((j + 1) * c)), "lt")):
                    return sp[0].add(Lin.const(j)), sp[1].sub(Lin.const(j * c))
        mk = ("divmod", l.key(), c)
        if mk in self.memo_prod:
            qi, ri = self.memo_prod[mk]
            return Lin.var(qi), Lin.var(ri)
        qi = self._aux("div", "I", lambda w: Fraction(int(l.eval(w)) // c))
        ri = self._aux("mod", "I", lambda w: Fraction(int(l.eval(w)) % c))
        self.memo_prod[mk] = (qi, ri)
        q, r = Lin.var(qi), Lin.var(ri)
        self.ivl[ri] = (F0, Fraction(c - 1))
        lo_, hi_ = self.lin_interval(l)
        if lo_ is not None and hi_ is not None:
            import math as _m

            self.ivl[qi] = (Fraction(_m.floor(lo_ / c)), Fraction(_m.floor(hi_ / c)))
            self.solver.add(And(_cmp(Lin.const(self.ivl[qi][0]).sub(q), "le"), _cmp(q.sub(Lin.const(self.ivl[qi][1])), "le")).z3(self))
        con = And(_cmp(l.sub(q.scale(Fraction(c))).sub(r), "eq"), _cmp(r.neg(), "le"), _cmp(r.sub(Lin.const(c - 1)), "le"))
        self.solver.add(con.z3(self))
        return q, r

    # ------------------------------------------------------------------ formatting holes
    def format_hole(self, x, spec):
        hid = "⟨H%d⟩" % len(self.holes) if False else "@H%d@" % len(self.holes)
        self.holes[hid] = (x, spec)
        return hid

    def format_percent(self, fmt, x):
        raise ModelGap("format_percent")

    # ------------------------------------------------------------------ property checks
    def check(self, name, prop, assumptions=(), extra_z3=(), info=None, witness_needed=True):
        """assert `prop` under `assumptions` for the whole region of the current path.
        extra_z3: raw z3 constraints (oracle definitions with fresh solver variables)."""
        a = And(*assumptions) if assumptions else True
        if a is False:
            self.stats.checks += 1
            self.events.append(("unreachable", name))
            return "unreachable"
        za = [] if a is True else [_b(a).z3(self)]
        za += list(extra_z3)
        if prop is True:
            self.stats.checks += 1
            self.stats.checks_concrete += 1
            return "unsat"
        zp = z3.BoolVal(False) if prop is False else _b(prop).z3(self)
        return self.check_z3(name, za, z3.Not(zp), info)

    def check_z3(self, name, za, znot, info=None):
        """decide  pc and za and znot ; unsat = the property holds on the whole region of this path"""
        st = self.stats
        st.checks += 1
        r = self._check(*(list(za) + [znot]))
        if r == z3.unsat:
            st.checks_unsat += 1
            return "unsat"
        if r == z3.sat:
            m = self.last_model()
            basevals = self._model_to_base(m)
            # prefer a counter-example from the harness's "robust" sub-box (moderate magnitudes, wide spans, dyadic values):
            # it replays on the float code without boundary effects; any model of the same query is an equally valid witness
            hints = [h for h in getattr(self, "model_hints", []) if h is not True]
            if hints:
                self.hints_used = True
            if hints and not self.deferred:
                try:
                    zh = [_b(h).z3(self) for h in hints if h is not False]
                    r2 = self.solver.check(*(list(za) + [znot] + zh))
                    if r2 == z3.sat:
                        basevals = self._model_to_base(self.solver.model())
                        self._robust = True
                except (z3.Z3Exception, ModelGap):
                    pass
            if self.deferred and self.stats.__dict__.get("requeries", 0) >= 3:
                # enough candidates were already re-decided in this configuration: keep this one for the replay only
                st.checks_sat += 1
                self.findings.append(dict(check=name, inputs={k: str(v) for k, v in basevals.items()}, deferred=len(self.deferred), info=info, prefix=[], undecided=True))
                return "sat"
            if self.deferred:
                # the candidate lives on an over-approximated path (non-linear tests were forked without a
                # feasibility check): re-decide WITH the deferred constraints and their definitions (nlsat budget)
                st.__dict__["requeries"] = st.__dict__.get("requeries", 0) + 1
                rr, bv = self._requery_deferred(za, znot)
                if rr == "unsat":
                    st.__dict__["spurious_discharged_with_deferred"] = st.__dict__.get("spurious_discharged_with_deferred", 0) + 1
                    st.checks_unsat += 1
                    return "unsat"
                if rr == "unknown":
                    # undecided symbolically: keep the candidate, the runner replays it on the real code
                    # (reproduces => genuine violation; otherwise the run is inconclusive)
                    st.checks_unknown += 1
                    st.gaps.append("unknown on check %s after adding the deferred non-linear constraints" % name)
                    self.findings.append(dict(check=name, inputs={k: str(v) for k, v in basevals.items()}, deferred=len(self.deferred), info=info, prefix=[], undecided=True))
                    return "unknown"
                basevals = bv
            st.checks_sat += 1
            rob = bool(getattr(self, "_robust", False)) or not getattr(self, "model_hints", [])
            self._robust = False
            if rob or sum(1 for f in self.findings if not f.get("robust")) < self.max_findings:
                self.findings.append(dict(check=name, inputs={k: str(v) for k, v in basevals.items()}, deferred=len(self.deferred), info=info, prefix=[], robust=rob))
            return "sat"
        st.checks_unknown += 1
        st.gaps.append("unknown on check %s" % name)
        return "unknown"

    def _requery_deferred(self, za, znot, timeout_ms=30000):
        s2 = z3.Solver()
        s2.set("timeout", timeout_ms)
        for a in self.solver.assertions():
            s2.add(a)
        for mk in self.deferred_z3defs:
            s2.add(mk())
        for c in self.deferred:
            s2.add(_b(c).z3(self))
        t = time.time()
        r = s2.check(*(list(za) + [znot]))
        self.stats.solver_s += time.time() - t
        self.stats.queries += 1
        if r == z3.unsat:
            return "unsat", None
        if r == z3.sat:
            try:
                return "sat", self._model_to_base(s2.model())
            except ModelGap:
                return "unknown", None
        return "unknown", None

    def reachable(self, assumptions=(), extra_z3=()):
        a = And(*assumptions) if assumptions else True
        if a is False:
            return False
        za = [] if a is True else [_b(a).z3(self)]
        r = self._check(*(za + list(extra_z3)))
        if r == z3.unknown:
            self.stats.gaps.append("unknown on reachability")
        return r == z3.sat

    def sample(self):
        return {self.vname[i]: _fmt_frac(self.w[i]) for i in self.base}

    # ------------------------------------------------------------------ exploration
    def explore(self, fn, max_paths=10**9, deadline=None, keep_samples=3, roots=None, shard=None):
        global ENGINE
        self.work = list(roots) if roots else [([], {})]
        ENGINE = self
        st = self.stats
        gc.disable()
        niter = 0
        while self.work:
            niter += 1
            if niter % 256 == 0:
                gc.collect()
            if deadline is not None and time.time() > deadline:
                st.gaps.append("deadline reached with %d work items left" % len(self.work))
                break
            prefix, wit = self.work.pop()
            if shard is not None and len(prefix) >= shard[2] and hash(tuple(prefix[: shard[2]])) % shard[1] != shard[0]:
                continue  # another shard of this configuration explores that subtree
            self._reset_path(prefix, wit)
            try:
                fn(self)
                st.paths += 1
                st.max_depth = max(st.max_depth, self.idx)
                if len(self.samples) < keep_samples:
                    self.samples.append(self.sample())
            except PathAbort:
                st.aborted += 1
            except ModelGap as e:
                if str(e) not in st.gaps:
                    st.gaps.append(str(e))
            except BoundExceeded as e:
                st.gaps.append("bound exceeded: %s" % e)
            nrob = sum(1 for f in self.findings if f.get("robust"))
            if nrob >= 3 and len(self.findings) >= 3 or (len(self.findings) >= self.max_findings and not getattr(self, "hints_used", False)) or len(self.findings) >= 4 * self.max_findings:
                st.gaps.append("stopped after %d candidate counter-examples (%d work items not explored)" % (len(self.findings), len(self.work)))
                break
            if st.paths >= max_paths:
                if self.work:
                    st.gaps.append("max_paths reached with %d work items left" % len(self.work))
                break
        ENGINE = None
        gc.enable()
        return st


def _z3val(v):
    if z3.is_int_value(v):
        return Fraction(v.as_long())
    if z3.is_rational_value(v):
        return Fraction(v.numerator_as_long(), v.denominator_as_long())
    if z3.is_algebraic_value(v):
        a = v.approx(30)
        return Fraction(a.numerator_as_long(), a.denominator_as_long())
    raise ModelGap("model value %r" % v)


def _fmt_frac(f):
    return str(f) if f.denominator == 1 else "%s (~%.6g)" % (f, float(f))
