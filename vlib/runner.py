"""Check driver:  python -m vlib.runner <PROPERTY> [--tier quick|thorough]

exit 0  every path of every configuration decided `unsat` (property holds on all regions explored)
exit 1  a solver counter-example that REPLAYS on the uninstrumented real code (VIOLATION line)
exit 2  inconclusive (solver unknown, bound exceeded, model gap, non-reproducing counter-example)
"""
import argparse
import importlib
import json
import multiprocessing as mp
import os
import subprocess
import sys
import time
import traceback

ROOT = os.path.dirname(os.path.dirname(os.path.abspath(__file__)))


def _bootstrap():
    from . import deps

    deps.ensure()


def _worker(args):
    modname, cfg, seed, budget_s = args
    from . import engine, instr

    t0 = time.time()
    instr.install()
    H = importlib.import_module(modname)
    E = engine.Engine(seed=seed, **getattr(H, "ENGINE_OPTS", {}))
    if "engine_opts" in cfg:
        for k, v in cfg["engine_opts"].items():
            setattr(E, k, v)
    err = None
    try:
        instr.reset_loops()

        def body(e):
            instr.reset_loops()
            return H.run(e, cfg)

        E.explore(body, deadline=t0 + budget_s if budget_s else None, shard=cfg.get("_shard"))
    except Exception:
        err = traceback.format_exc()
    st = E.stats.as_dict()
    fs = sorted(E.findings, key=lambda f: (not f.get("robust", False), bool(f.get("undecided"))))
    return dict(cfg=cfg, stats=st, findings=fs[:20], nfindings=len(E.findings), samples=E.samples, cov=sorted(instr.COV), err=err, wall=time.time() - t0)


def _replay(modname, cfg, finding, idx, pid):
    os.makedirs(os.path.join(ROOT, "replays"), exist_ok=True)
    path = os.path.join(ROOT, "replays", "%s-%d.json" % (pid, idx))
    with open(path, "w") as f:
        json.dump(dict(property=pid, module=modname, cfg=cfg, inputs=finding["inputs"], check=finding["check"], info=finding.get("info")), f, indent=1)
    r = subprocess.run([sys.executable, "-m", "vlib.replay", path], cwd=ROOT, capture_output=True, text=True, timeout=600)
    out = r.stdout.strip().splitlines()
    res = None
    for line in out[::-1]:
        if line.startswith("{"):
            try:
                res = json.loads(line)
                break
            except ValueError:
                pass
    return path, res, r.stderr[-2000:]


def load_known():
    p = os.path.join(ROOT, "known_findings.json")
    if not os.path.exists(p):
        return []
    return json.load(open(p)).get("known", [])


def main(argv=None):
    ap = argparse.ArgumentParser()
    ap.add_argument("prop")
    ap.add_argument("--tier", default=os.environ.get("VERIF_TIER", "quick"))
    ap.add_argument("--jobs", type=int, default=int(os.environ.get("VERIF_JOBS", "16")))
    ap.add_argument("--only", default=None, help="substring filter on configuration names (debugging)")
    ap.add_argument("--no-evidence", action="store_true")
    a = ap.parse_args(argv)
    _bootstrap()
    seed = int(os.environ.get("VERIF_SEED", "0"))
    modname = "checks.%s" % a.prop
    sys.path.insert(0, ROOT)
    from . import instr

    t0 = time.time()
    H = importlib.import_module(modname)
    cfgs = H.configs(a.tier)
    if a.only:
        cfgs = [c for c in cfgs if a.only in c["name"]]
    budget = getattr(H, "BUDGET_S", {}).get(a.tier, 420 if a.tier == "quick" else 5400)
    # a heavy configuration may be split into shards: each explores the subtrees whose first D decisions hash to it
    # (paths shorter than D decisions are explored by every shard: counted more than once, never missed)
    ex = []
    for c in cfgs:
        n = int(c.get("shards", 1))
        if n <= 1:
            ex.append(c)
            continue
        for i in range(n):
            d = dict(c)
            d["name"] = "%s#%d/%d" % (c["name"], i, n)
            d["_shard"] = (i, n, int(c.get("shard_depth", 8)))
            d["weight"] = c.get("weight", 1) / n
            ex.append(d)
    cfgs = ex
    # self-checks of models / static lemmas (exceptions => inconclusive)
    pre = {}
    inconclusive = []
    if hasattr(H, "precheck"):
        try:
            pre = H.precheck(a.tier) or {}
            if pre.get("failed"):
                inconclusive.append("precheck failed: %s" % pre["failed"])
        except Exception:
            inconclusive.append("precheck raised: " + traceback.format_exc()[-800:])
    jobs = [(modname, c, seed, budget) for c in cfgs]
    results = []
    if a.jobs <= 1 or len(jobs) <= 1:
        results = [_worker(j) for j in jobs]
    else:
        ctx = mp.get_context("fork")
        with ctx.Pool(min(a.jobs, len(jobs)), maxtasksperchild=8) as pool:
            # biggest first
            order = sorted(range(len(jobs)), key=lambda i: -cfgs[i].get("weight", 1))
            for r in pool.imap_unordered(_worker, [jobs[i] for i in order]):
                results.append(r)
    results.sort(key=lambda r: r["cfg"]["name"])
    # ---- aggregate
    from .engine import Stats

    tot = Stats()
    cov = set()
    samples = []
    violations = []
    known_hits = []
    per_cfg = []
    nrep = 0
    known = [k for k in load_known() if k.get("property") == a.prop]
    for r in results:
        st = r["stats"]
        for k in ("paths aborted queries solver_s branch_points deferred_forks checks checks_unsat checks_concrete checks_sat checks_unknown bound_exceeded").split():
            setattr(tot, k, getattr(tot, k) + st[k])
        tot.max_depth = max(tot.max_depth, st["max_depth"])
        cov.update(r["cov"])
        if r["samples"] and len(samples) < 12:
            samples.append(dict(config=r["cfg"]["name"], inputs=r["samples"][0]))
        per_cfg.append(dict(name=r["cfg"]["name"], paths=st["paths"], checks=st["checks"], unsat=st["checks_unsat"], concrete=st["checks_concrete"], sat=st["checks_sat"], queries=st["queries"], wall=round(r["wall"], 1)))
        if r["err"]:
            inconclusive.append("config %s raised: %s" % (r["cfg"]["name"], r["err"][-1500:]))
        if st["gaps"]:
            inconclusive.append("config %s: %s" % (r["cfg"]["name"], "; ".join(st["gaps"][:3])))
        if st["checks_unknown"]:
            inconclusive.append("config %s: %d unknown" % (r["cfg"]["name"], st["checks_unknown"]))
        if st["paths"] == 0 and not r["cfg"].get("may_be_empty"):
            inconclusive.append("config %s explored no path (vacuous)" % r["cfg"]["name"])
        # ---- replay candidate counter-examples on the real code
        confirmed_here = 0
        tried_here = 0
        for f in r["findings"]:
            # at most 3 replays per configuration, 80 per run, and none once enough violations are confirmed
            if nrep >= 80 or tried_here >= 3 or confirmed_here >= 1 or len(violations) >= 4:
                break
            tried_here += 1
            nrep += 1
            path, res, err = _replay(modname, r["cfg"], f, nrep, a.prop)
            if res is None:
                inconclusive.append("replay crashed for %s: %s" % (path, err[-500:]))
                continue
            if res.get("violated"):
                confirmed_here += 1
                kn = [k for k in known if k.get("match") and k["match"] in (res.get("signature") or "")]
                if kn:
                    known_hits.append((kn[0], res))
                else:
                    violations.append((path, res))
            else:
                inconclusive.append("counter-example of check %s (config %s) did not reproduce on the real code: %s" % (f["check"], r["cfg"]["name"], (res.get("detail") or "")[:300]))
    for pcfg, f in pre.get("findings", []):
        nrep += 1
        path, res, err = _replay(modname, pcfg, f, 100 + nrep, a.prop)
        if res is None:
            inconclusive.append("replay crashed for %s: %s" % (path, err[-500:]))
        elif res.get("violated"):
            kn = [k for k in known if k.get("match") and k["match"] in (res.get("signature") or "")]
            if kn:
                known_hits.append((kn[0], res))
            else:
                violations.append((path, res))
        else:
            inconclusive.append("lemma counter-example did not reproduce on the real code: %s" % (res.get("detail") or "")[:300])
    wall = time.time() - t0
    # vacuity: at least one non-trivial solver-discharged check overall
    nf_ok = getattr(H, "NORMAL_FORM_DECIDES", False)  # property = identity of two symbolic terms: equal normal forms decide it
    if tot.checks_unsat + tot.checks_sat == 0 and not pre.get("obligations") and not (nf_ok and tot.checks_concrete and tot.queries):
        inconclusive.append("no property query reached the solver (vacuous run)")
    status = "violation" if violations else ("inconclusive" if inconclusive else "holds")
    ev = dict(
        property_id=a.prop,
        tier=a.tier,
        seed=seed,
        level="other",
        wall_s=round(wall, 2),
        violations=len(violations),
        coverage=dict(
            explanation=getattr(H, "EXPLANATION", "") + " Verdict of this run: %s." % status,
            technique="bounded symbolic execution of the real code (AST-instrumented import of /repo/labella), SMT-decided per path with z3 %s" % _z3ver(),
            source_digest=instr.source_digest(),
            functions_encoded=sorted(cov),
            bounds=getattr(H, "BOUNDS", {}).get(a.tier, getattr(H, "BOUNDS", {})),
            outside_claim=getattr(H, "OUTSIDE", []),
            configurations=len(cfgs),
            paths=tot.paths,
            paths_aborted_infeasible=tot.aborted,
            branch_points=tot.branch_points,
            deferred_nonlinear_forks=tot.deferred_forks,
            max_decision_depth=tot.max_depth,
            solver_queries=tot.queries,
            solver_seconds=round(tot.solver_s, 2),
            property_queries=tot.checks,
            property_queries_unsat=tot.checks_unsat,
            property_queries_decided_concretely=tot.checks_concrete,
            property_queries_sat=tot.checks_sat,
            property_queries_unknown=tot.checks_unknown,
            evaluations=tot.paths + int(pre.get("obligations", 0)),
            distinct_nontrivial=tot.checks_unsat + tot.checks_sat + int(pre.get("discharged", 0)) + (tot.checks_concrete if nf_ok else 0),
            rule="one evaluation = one explored path (a region of the input box with fixed branch decisions) or one static lemma; non-trivial = a property query that reached the solver (not decided by constant folding); distinct by (configuration, decision prefix, check name)",
            samples=samples or pre.get("samples", [])[:5] or ["(none)"],
            per_configuration=per_cfg[:400],
            precheck=pre,
            inconclusive=inconclusive[:20],
            known_findings_hit=[k["id"] for k, _ in known_hits],
            replays_run=nrep,
            exhaustive=False,
        ),
        assumptions=list(getattr(H, "ASSUMPTIONS", [])),
    )
    if not a.no_evidence:
        os.makedirs(os.path.join(ROOT, "evidence"), exist_ok=True)
        with open(os.path.join(ROOT, "evidence", a.prop + ".json"), "w") as f:
            json.dump(ev, f, indent=1, default=str)
    print("%s tier=%s configs=%d paths=%d checks=%d unsat=%d concrete=%d sat=%d unknown=%d queries=%d solver=%.1fs wall=%.1fs" % (a.prop, a.tier, len(cfgs), tot.paths, tot.checks, tot.checks_unsat, tot.checks_concrete, tot.checks_sat, tot.checks_unknown, tot.queries, tot.solver_s, wall))
    for k, res in known_hits:
        print("KNOWN-FINDING: property=%s %s" % (a.prop, k.get("what", k["id"])))
    if violations:
        for path, res in violations:
            print("  detail: %s" % (res.get("detail") or "")[:500])
            print("VIOLATION property=%s replay=%s" % (a.prop, path))
        return 1
    if inconclusive:
        print("INCONCLUSIVE property=%s" % a.prop)
        for m in inconclusive[:10]:
            print("  - " + m[:1500])
        return 2
    print("OK property=%s holds on every explored region" % a.prop)
    return 0


def _z3ver():
    try:
        import z3

        return z3.get_version_string()
    except Exception:
        return "?"


if __name__ == "__main__":
    sys.exit(main())
