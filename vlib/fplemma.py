"""Engine C -- bit-precise (IEEE-754 binary64, round-nearest-even) lemmas about the arithmetic kernels of
labella/scale.py, translated from the AST of /repo's CURRENT source on every run.

Only the clause of C12 that real arithmetic cannot speak about is decided here: the linear scale maps the two
domain end points EXACTLY onto the two range end points.
"""
import ast
import os
import time

import z3

REPO = os.environ.get("VERIF_REPO", "/repo")
F64 = z3.Float64()
RNE = z3.RNE()


class Unsupported(Exception):
    pass


class Closure(object):
    def __init__(self, args, body, env):
        self.args, self.body, self.env = args, body, env

    def __call__(self, *vals):
        env = dict(self.env)
        for a, v in zip(self.args, vals):
            env[a] = v
        return ev(self.body, env)


def fp(x):
    return z3.FPVal(float(x), F64)


def ev(node, env):
    if isinstance(node, ast.Constant):
        if isinstance(node.value, (int, float)) and not isinstance(node.value, bool):
            return fp(node.value)
        raise Unsupported("constant %r" % (node.value,))
    if isinstance(node, ast.Name):
        if node.id in env:
            return env[node.id]
        raise Unsupported("name %s" % node.id)
    if isinstance(node, ast.BinOp):
        a, b = ev(node.left, env), ev(node.right, env)
        if isinstance(node.op, ast.Add):
            return z3.fpAdd(RNE, a, b)
        if isinstance(node.op, ast.Sub):
            return z3.fpSub(RNE, a, b)
        if isinstance(node.op, ast.Mult):
            return z3.fpMul(RNE, a, b)
        if isinstance(node.op, ast.Div):
            return z3.fpDiv(RNE, a, b)
        raise Unsupported("binop %s" % type(node.op).__name__)
    if isinstance(node, ast.UnaryOp) and isinstance(node.op, ast.USub):
        return z3.fpNeg(ev(node.operand, env))
    if isinstance(node, ast.Compare) and len(node.ops) == 1:
        a, b = ev(node.left, env), ev(node.comparators[0], env)
        op = node.ops[0]
        return {ast.Eq: z3.fpEQ, ast.NotEq: z3.fpNEQ, ast.Lt: z3.fpLT, ast.LtE: z3.fpLEQ, ast.Gt: z3.fpGT, ast.GtE: z3.fpGEQ}[type(op)](a, b)
    if isinstance(node, ast.Call) and isinstance(node.func, ast.Name) and node.func.id in ("max", "min") and len(node.args) == 2:
        a, b = ev(node.args[0], env), ev(node.args[1], env)
        # Python: max(a, b) returns b only if b > a ; min(a, b) returns b only if b < a
        if node.func.id == "max":
            return z3.If(z3.fpGT(b, a), b, a)
        return z3.If(z3.fpLT(b, a), b, a)
    if isinstance(node, ast.Call) and isinstance(node.func, ast.Name) and node.func.id == "float" and len(node.args) == 1:
        return ev(node.args[0], env)
    if isinstance(node, ast.Call) and isinstance(node.func, ast.Name) and node.func.id in env and isinstance(env[node.func.id], Closure):
        return env[node.func.id](*[ev(a, env) for a in node.args])
    if isinstance(node, ast.Lambda):
        return Closure([a.arg for a in node.args.args], node.body, dict(env))
    if isinstance(node, ast.IfExp):
        t = ev(node.test, env)
        a, b = ev(node.body, env), ev(node.orelse, env)
        if isinstance(a, Closure) or isinstance(b, Closure):
            raise Unsupported("conditional closure")
        return z3.If(t, a, b)
    raise Unsupported(ast.dump(node)[:80])


def run_body(stmts, env):
    """returns a function value: list of (guard, Closure) alternatives"""
    alts = []
    guard = []
    env = dict(env)
    for st in stmts:
        if isinstance(st, ast.Expr) and isinstance(st.value, ast.Constant):
            continue
        if isinstance(st, ast.Assign) and len(st.targets) == 1 and isinstance(st.targets[0], ast.Name):
            env[st.targets[0].id] = ev(st.value, env)
            continue
        if isinstance(st, ast.If) and not st.orelse:
            t = ev(st.test, env)
            sub = run_body(st.body, env)
            for g, c in sub:
                alts.append((guard + [t] + g, c))
            guard = guard + [z3.Not(t)]
            continue
        if isinstance(st, ast.Return):
            v = ev(st.value, env)
            if not isinstance(v, Closure):
                raise Unsupported("kernel does not return a function")
            alts.append((list(guard), v))
            return alts
        raise Unsupported("statement %s" % type(st).__name__)
    return alts


def load_kernels():
    src = open(os.path.join(REPO, "labella", "scale.py")).read()
    tree = ast.parse(src)
    fns = {}
    for node in tree.body:
        if isinstance(node, ast.FunctionDef) and node.name in ("d3_uninterpolateNumber", "d3_uninterpolateClamp", "d3_interpolateNumber", "d3_interpolate"):
            fns[node.name] = node
    return fns


def apply_kernel(fn, a, b, x, fns=None):
    """value of  fn(a, b)(x)  as an FP term (guards folded into If)"""
    env = {fn.args.args[0].arg: a, fn.args.args[1].arg: b}
    if fns:
        for name, f in fns.items():
            if name != fn.name:
                env[name] = None
    # `return d3_interpolateNumber(a, b)` style delegation
    if len(fn.body) == 1 and isinstance(fn.body[0], ast.Return) and isinstance(fn.body[0].value, ast.Call) and isinstance(fn.body[0].value.func, ast.Name) and fns and fn.body[0].value.func.id in fns:
        call = fn.body[0].value
        args = [ev(z, env) for z in call.args]
        return apply_kernel(fns[call.func.id], args[0], args[1], x, fns)
    alts = run_body(fn.body, env)
    res = None
    for g, c in reversed(alts):
        v = c(x)
        res = v if res is None else z3.If(z3.And(*g) if g else z3.BoolVal(True), v, res)
    return res


def in_box(v, lo=1e-6, hi=1e9, zero_ok=True):
    av = z3.fpAbs(v)
    c = z3.And(z3.fpLEQ(fp(lo), av), z3.fpLEQ(av, fp(hi)))
    if zero_ok:
        c = z3.Or(c, z3.fpIsZero(v))
    return z3.And(z3.Not(z3.fpIsNaN(v)), z3.Not(z3.fpIsInf(v)), c)


def endpoint_lemmas(timeout_s=600):
    """for all finite doubles a != b and r0, r1 in the magnitude box: scale(a) == r0 and scale(b) == r1 (bit-exact),
    for both the plain and the clamping uninterpolator.  Returns list of dict(name, result, seconds, model)"""
    fns = load_kernels()
    a, b, r0, r1 = [z3.FP(n, F64) for n in ("a", "b", "r0", "r1")]
    box = z3.And(in_box(a), in_box(b), in_box(r0), in_box(r1), z3.Not(z3.fpEQ(a, b)))
    out = []
    for uname in ("d3_uninterpolateNumber", "d3_uninterpolateClamp"):
        for which, x, want in (("first", a, r0), ("second", b, r1)):
            t = apply_kernel(fns[uname], a, b, x, fns)
            y = apply_kernel(fns["d3_interpolate"], r0, r1, t, fns)
            s = z3.Solver()
            s.set("timeout", int(timeout_s * 1000))
            s.add(box)
            s.add(z3.Not(z3.fpEQ(y, want)))
            t0 = time.time()
            r = s.check()
            d = dict(name="%s maps the %s domain end point exactly" % (uname, which), result=str(r), seconds=round(time.time() - t0, 2))
            if r == z3.sat:
                m = s.model()
                d["model"] = {str(v): float(eval_fp(m, v)) for v in (a, b, r0, r1)}
            out.append(d)
    return out


def eval_fp(m, v):
    x = m.eval(v, model_completion=True)
    s = str(x)
    try:
        import struct

        bv = m.eval(z3.fpToIEEEBV(v), model_completion=True).as_long()
        return struct.unpack("<d", struct.pack("<Q", bv))[0]
    except Exception:
        return float("nan")


def _one(args):
    idx, timeout_s = args
    return endpoint_lemmas_split(idx, timeout_s)


def endpoint_lemmas_split(idx, timeout_s):
    fns = load_kernels()
    a, b, r0, r1 = [z3.FP(n, F64) for n in ("a", "b", "r0", "r1")]
    box = z3.And(in_box(a), in_box(b), in_box(r0), in_box(r1), z3.Not(z3.fpEQ(a, b)))
    combos = [(u, w) for u in ("d3_uninterpolateNumber", "d3_uninterpolateClamp") for w in ("first", "second")]
    uname, which = combos[idx]
    x, want = (a, r0) if which == "first" else (b, r1)
    t = apply_kernel(fns[uname], a, b, x, fns)
    y = apply_kernel(fns["d3_interpolate"], r0, r1, t, fns)
    s = z3.Solver()
    s.set("timeout", int(timeout_s * 1000))
    s.add(box)
    s.add(z3.Not(z3.fpEQ(y, want)))
    t0 = time.time()
    r = s.check()
    d = dict(name="%s maps the %s domain end point exactly" % (uname, which), result=str(r), seconds=round(time.time() - t0, 2))
    if r == z3.sat:
        m = s.model()
        d["model"] = {str(v): eval_fp(m, v) for v in (a, b, r0, r1)}
    return d


if __name__ == "__main__":
    import multiprocessing as mp
    import sys

    with mp.get_context("fork").Pool(4) as p:
        for d in p.imap_unordered(_one, [(i, float(sys.argv[1]) if len(sys.argv) > 1 else 300) for i in range(4)]):
            print(d)
