"""Fast construction of z3 terms through the C API (z3py's operator overloading costs ~20x more).
Intermediate ASTs are only held as raw pointers while a root term is being built; the engine keeps the
cyclic garbage collector off during exploration so no z3 wrapper is finalised in between."""
from fractions import Fraction

import z3
from z3 import z3core


def _f(n):
    return getattr(z3core, n).__defaults__[0].f


_mk_num = _f("Z3_mk_numeral")
_mk_mul = _f("Z3_mk_mul")
_mk_add = _f("Z3_mk_add")
_mk_le = _f("Z3_mk_le")
_mk_lt = _f("Z3_mk_lt")
_mk_eq = _f("Z3_mk_eq")
_mk_and = _f("Z3_mk_and")
_mk_or = _f("Z3_mk_or")
_mk_not = _f("Z3_mk_not")
_mk_i2r = _f("Z3_mk_int2real")
_mk_true = _f("Z3_mk_true")
_mk_false = _f("Z3_mk_false")

_inc = _f("Z3_inc_ref")
_dec = _f("Z3_dec_ref")

CTX = z3.main_ctx()
C = CTX.ref()
RS = z3.RealSort()
IS = z3.IntSort()
_RS = RS.ast
_IS = IS.ast
A2 = z3.Ast * 2
_numcache = {}
_keep = []


def num(f, isint):
    k = (f, isint)
    r = _numcache.get(k)
    if r is None:
        if isint:
            a = _mk_num(C, str(int(f)).encode(), _IS)
        else:
            a = _mk_num(C, (("%d/%d" % (f.numerator, f.denominator)) if f.denominator != 1 else str(f.numerator)).encode(), _RS)
        w = z3.ArithRef(a, CTX)  # keeps it alive
        _numcache[k] = w
        return w.ast
    return r.ast


_pool = []


def _hold(a):
    # in a ref-counted context a fresh AST is only kept until the next API call: pin it
    _inc(C, a)
    _pool.append(a)
    return a


def release():
    for a in _pool:
        _dec(C, a)
    del _pool[:]


def arr(xs):
    n = len(xs)
    return n, (z3.Ast * n)(*xs)


def add(xs):
    if len(xs) == 1:
        return xs[0]
    n, a = arr(xs)
    return _hold(_mk_add(C, n, a))


def mul2(a, b):
    return _hold(_mk_mul(C, 2, A2(a, b)))


def i2r(a):
    return _hold(_mk_i2r(C, a))


def le(a, b):
    return _hold(_mk_le(C, a, b))


def lt(a, b):
    return _hold(_mk_lt(C, a, b))


def eq(a, b):
    return _hold(_mk_eq(C, a, b))


def and_(xs):
    if not xs:
        return _hold(_mk_true(C))
    if len(xs) == 1:
        return xs[0]
    n, a = arr(xs)
    return _hold(_mk_and(C, n, a))


def or_(xs):
    if not xs:
        return _hold(_mk_false(C))
    if len(xs) == 1:
        return xs[0]
    n, a = arr(xs)
    return _hold(_mk_or(C, n, a))


def not_(a):
    return _hold(_mk_not(C, a))


def true():
    return _hold(_mk_true(C))


def false():
    return _hold(_mk_false(C))


def wrap_bool(a):
    w = z3.BoolRef(a, CTX)
    release()
    return w


def wrap_arith(a):
    w = z3.ArithRef(a, CTX)
    release()
    return w
