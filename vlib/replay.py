"""Replay a solver counter-example on the UNINSTRUMENTED real code:
   python -m vlib.replay <file.json>   -> last stdout line is a JSON object {violated, detail, signature}
labella is imported the ordinary way from /repo (no AST pass, no proxies)."""
import importlib
import json
import os
import sys
from fractions import Fraction

ROOT = os.path.dirname(os.path.dirname(os.path.abspath(__file__)))


def main():
    path = sys.argv[1]
    d = json.load(open(path))
    sys.path.insert(0, ROOT)
    repo = os.environ.get("VERIF_REPO", "/repo")
    sys.path.insert(0, repo)
    sys.dont_write_bytecode = True
    tzname = (d.get("cfg") or {}).get("tzname")
    if tzname == "<from-model>":
        q = int(Fraction(d["inputs"].get("tz_off1_quarters", "0")))
        mins = q * 15
        tzname = "<LOC>%s%d:%02d" % ("-" if mins >= 0 else "+", abs(mins) // 60, abs(mins) % 60)  # POSIX sign is inverted
    if tzname:
        import time as _time

        os.environ["TZ"] = tzname  # before labella is imported: import-time uses of the local zone count too
        _time.tzset()
    import labella

    assert os.path.realpath(os.path.dirname(labella.__file__)) == os.path.realpath(os.path.join(repo, "labella")), labella.__file__
    H = importlib.import_module(d["module"])
    inputs = {k: Fraction(v) for k, v in d["inputs"].items()}
    res = H.replay(d["cfg"], inputs, d.get("check"), d.get("info"))
    print(json.dumps(res, default=str))
    return 0


if __name__ == "__main__":
    sys.exit(main())
