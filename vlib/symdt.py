"""datetime family model (filled in by the calendar harnesses)"""


def sym_isinstance(x, t):
    return None


def install(module):
    pass
