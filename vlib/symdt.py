"""Model of the datetime family for symbolic execution (DESIGN.md 2.2).

An instant is ONE linear integer form: microseconds since 1970-01-01T00:00 (naive).  All
timedelta / total_seconds traffic stays in that epoch space as integer terms.  Civil fields are
materialised lazily per day number; the month (12-way) and February's leap status are FORKED on the
path at that moment so that every date formula on the path is month-constant.  An instant whose form
differs from an already materialised instant by a constant is resolved by carry/borrow forks on the
known fields instead of a second inversion.

Local time zone: timestamp()/fromtimestamp() are the only OS dependencies; they are modelled with a
symbolic zone (engine attribute tz): 'utc' (offset 0), ('const',) one symbolic offset, ('dst',) two
symbolic offsets around a symbolic transition instant.
"""
import builtins
import datetime as _dt
from fractions import Fraction

from . import engine as E
from .engine import SymInt, SymReal, SymNum, SymFrac, Lin, And, Or, Not, Implies, ModelGap, cur, lin_of

DAY_US = 86400 * 10**6
YLO, YHI = 1890, 2210  # civil fields are only modelled inside this window
_REAL_EPOCH = _dt.datetime(1970, 1, 1)
CUM = [0, 31, 59, 90, 120, 151, 181, 212, 243, 273, 304, 334]  # days before month m (non-leap)
DIM = [31, 28, 31, 30, 31, 30, 31, 31, 30, 31, 30, 31]


def _I(x):
    """SymInt / int -> SymInt-or-int usable in proxy arithmetic"""
    if isinstance(x, bool):
        return int(x)
    return x


def _is_int_lin(e, l):
    return l.c.denominator == 1 and all(e.vsort[v] == "I" and k.denominator == 1 for v, k in l.t.items())


def to_us(x, unit):
    """number (int/float/SymInt/SymReal) of `unit` microseconds -> integer microseconds (round half even like timedelta)"""
    if isinstance(x, SymFrac):
        x = x.mat()
    if isinstance(x, SymNum):
        l = x.lin.scale(Fraction(unit))
        if not l.t:
            return int(round(l.c))
        if _is_int_lin(cur(), l):
            return SymInt(l)
        return SymInt(cur().aux_round(l))
    if isinstance(x, float):
        return int(round(Fraction(x) * unit))
    return int(x) * unit


# ----------------------------------------------------------------------------------------
# calendar arithmetic on proxies (month concrete)
# ----------------------------------------------------------------------------------------
def days_before_year(y):
    """days from 0001-01-01-based proleptic count to 1 Jan of year y, shifted so that 1970-01-01 -> 0"""
    y1 = y - 1
    return y1 * 365 + y1 // 4 - y1 // 100 + y1 // 400 - 719162


def is_leap_cond(y):
    return And(y % 4 == 0, Or(Not(y % 100 == 0), y % 400 == 0))


def leap_of(y):
    """decide (fork) the leap status of year y on this path"""
    if isinstance(y, int):
        return y % 4 == 0 and (y % 100 != 0 or y % 400 == 0)
    e = cur()
    memo = e.pm.setdefault("leap_memo", {})
    k = y.lin.key()
    if k not in memo:
        c = is_leap_cond(y)
        memo[k] = c if isinstance(c, bool) else e.branch(c)
    return memo[k]


def dim(y, m):
    if m == 2:
        return 29 if leap_of(y) else 28
    return DIM[m - 1]


def day_number(y, m, d):
    """days since 1970-01-01 of the civil date (m concrete)"""
    n = days_before_year(y) + CUM[m - 1] + (d - 1)
    if m > 2 and leap_of(y):
        n = n + 1
    return n


class Civil(object):
    __slots__ = ("y", "m", "d")

    def __init__(self, y, m, d):
        self.y, self.m, self.d = y, m, d


def _key(x):
    return lin_of(x).key()


def civil_of_day(N):
    """(y, m, d) of day number N; forks the month and (for Jan/Feb boundaries) the leap status"""
    if isinstance(N, int) or not N.lin.t:
        n = N if isinstance(N, int) else int(N.lin.c)
        d = _dt.date(1970, 1, 1) + _dt.timedelta(days=n)
        return Civil(d.year, d.month, d.day)
    e = cur()
    memo = e.pm.setdefault("civil_memo", {})
    k = N.lin.key()
    if k in memo:
        return memo[k]
    # relative to an already materialised day: carry / borrow
    for k2, (N2, c2) in list(e.pm.setdefault("civil_days", {}).items()):
        diff = N.lin.sub(N2.lin)
        if not diff.t and abs(diff.c) <= 62 and diff.c.denominator == 1:
            c = shift_days(c2, int(diff.c))
            memo[k] = c
            e.pm["civil_days"][k] = (N, c)
            return c
    cnt = e.pm.setdefault("civil_cnt", [0])
    cnt[0] += 1
    # year and day-of-month are primitive bounded integers tied to N by ONE linear equation per month (the solver
    # then reasons about d mod k etc. on a variable in [1,31] instead of on a long form over N and year quotients)
    y = e.integer("cy%d" % cnt[0], YLO, YHI)
    d = e.integer("cd%d" % cnt[0], 1, 31)
    lp = leap_of(y)
    doy = N - days_before_year(y)  # 0-based day of year
    e.assume(And(doy >= 0, doy <= (365 if lp else 364)))
    acc = 0
    mth = None
    for m in range(1, 13):
        dm = DIM[m - 1] + (1 if (m == 2 and lp) else 0)
        if m == 12 or e.branch(doy < acc + dm):
            mth = m
            break
        acc += dm
    e.assume(And(d == doy - acc + 1, d <= dm))
    c = Civil(y, mth, d)
    memo[k] = c
    e.pm["civil_days"][k] = (N, c)
    return c


def _truth(c):
    return c if isinstance(c, bool) else cur().branch(c)


def shift_days(c, k):
    """civil date k days after c (k small concrete, may be negative), by carry/borrow forks"""
    if k == 0:
        return c
    if all(isinstance(v, int) for v in (c.y, c.m, c.d)):
        d = _dt.date(c.y, c.m, c.d) + _dt.timedelta(days=k)
        return Civil(d.year, d.month, d.day)
    y, m, d = c.y, c.m, c.d + k
    for _ in range(5):
        if k > 0:
            dm = dim(y, m)
            if _truth(d <= dm):
                return Civil(y, m, d)
            d = d - dm
            if m == 12:
                y, m = y + 1, 1
            else:
                m = m + 1
        else:
            if _truth(d >= 1):
                return Civil(y, m, d)
            if m == 1:
                y, m = y - 1, 12
            else:
                m = m - 1
            d = d + dim(y, m)
    raise ModelGap("shift_days: more than 4 month crossings")


# ----------------------------------------------------------------------------------------
class SymTD(object):
    """timedelta: integer microseconds"""

    __symbolic__ = True
    __hash__ = None

    def __init__(self, us):
        self.us = us

    def total_seconds(self):
        if isinstance(self.us, int):
            return self.us / 10**6
        return SymReal(self.us.lin.scale(Fraction(1, 10**6)))

    @property
    def days(self):
        return self.us // DAY_US

    @property
    def seconds(self):
        return (self.us % DAY_US) // 10**6

    @property
    def microseconds(self):
        return self.us % 10**6

    def _o(self, o):
        if isinstance(o, SymTD):
            return o.us
        if isinstance(o, _dt.timedelta):
            return (o.days * 86400 + o.seconds) * 10**6 + o.microseconds
        return None

    def __add__(self, o):
        if isinstance(o, (SymDT, _dt.datetime)):
            return SymDT.lift(o) + self
        u = self._o(o)
        return NotImplemented if u is None else SymTD(self.us + u)

    __radd__ = __add__

    def __sub__(self, o):
        u = self._o(o)
        return NotImplemented if u is None else SymTD(self.us - u)

    def __rsub__(self, o):
        if isinstance(o, _dt.datetime):
            return SymDT.lift(o) - self
        u = self._o(o)
        return NotImplemented if u is None else SymTD(u - self.us)

    def __neg__(self):
        return SymTD(-self.us)

    def __mul__(self, k):
        if isinstance(k, int):
            return SymTD(self.us * k)
        raise ModelGap("timedelta * non-int")

    __rmul__ = __mul__

    def _c(self, o, f):
        u = self._o(o)
        if u is None:
            return NotImplemented
        return f(self.us, u)

    def __lt__(self, o):
        return self._c(o, lambda a, b: a < b)

    def __le__(self, o):
        return self._c(o, lambda a, b: a <= b)

    def __gt__(self, o):
        return self._c(o, lambda a, b: a > b)

    def __ge__(self, o):
        return self._c(o, lambda a, b: a >= b)

    def __eq__(self, o):
        r = self._c(o, lambda a, b: a == b)
        return False if r is NotImplemented else r

    def __ne__(self, o):
        r = self._c(o, lambda a, b: a != b)
        return True if r is NotImplemented else r

    def __repr__(self):
        return "SymTD(%r us)" % (self.us,)


def _zone_modelled():
    e = E.ENGINE
    return e is not None and getattr(e, "tz", "utc") != "utc"


def timedelta(days=0, seconds=0, microseconds=0, milliseconds=0, minutes=0, hours=0, weeks=0):
    args = (days, seconds, microseconds, milliseconds, minutes, hours, weeks)
    if not any(isinstance(a, (SymNum, SymFrac)) for a in args) and not _zone_modelled():
        return _dt.timedelta(days=days, seconds=seconds, microseconds=microseconds, milliseconds=milliseconds, minutes=minutes, hours=hours, weeks=weeks)
    us = 0
    for a, unit in ((days, DAY_US), (seconds, 10**6), (microseconds, 1), (milliseconds, 1000), (minutes, 60 * 10**6), (hours, 3600 * 10**6), (weeks, 7 * DAY_US)):
        if isinstance(a, (int, float)) and a == 0:
            continue
        us = us + to_us(a, unit)
    return SymTD(us)


class SymDT(object):
    """naive datetime: integer microseconds since 1970-01-01T00:00"""

    __symbolic__ = True
    __hash__ = None
    kind = "datetime"

    def __init__(self, us):
        if isinstance(us, SymInt) and not us.lin.t:
            us = int(us.lin.c)
        self.us = us  # SymInt or int

    # ---- construction
    @staticmethod
    def lift(x):
        if isinstance(x, SymDT):
            return x
        if isinstance(x, _dt.datetime):
            d = x - _REAL_EPOCH
            return SymDT((d.days * 86400 + d.seconds) * 10**6 + d.microseconds)
        raise TypeError("not a datetime: %r" % (x,))

    @staticmethod
    def fresh(e, name, ylo=1900, yhi=2200, unit_us=1000, res=None):
        """fresh instant at `unit_us` resolution between 1 Jan ylo and 31 Dec yhi"""
        # FIELD FORM: day number, hour, minute, second, sub-second are primitive bounded integers, so that every
        # floor / div / mod the code applies to the instant can be read off syntactically (engine._integral_split)
        lo = (_dt.date(ylo, 1, 1) - _dt.date(1970, 1, 1)).days
        hi = (_dt.date(yhi, 12, 31) - _dt.date(1970, 1, 1)).days
        N = e.integer(name + "_day", lo, hi)
        # res: resolution of the instant ('ms' default via unit_us, 's', 'min', 'h'): coarser fields are the constant 0
        h = e.integer(name + "_h", 0, 23)
        mi = e.integer(name + "_mi", 0, 59) if res not in ("h",) else 0
        sec = e.integer(name + "_s", 0, 59) if res not in ("h", "min") else 0
        if 10**6 % unit_us:
            raise ModelGap("resolution must divide a second")
        sub = e.integer(name + "_sub", 0, 10**6 // unit_us - 1) if (unit_us < 10**6 and res in (None, "ms")) else 0
        tod = ((h * 60 + mi) * 60 + sec) * 10**6 + sub * unit_us
        r = SymDT.from_split(N, tod)
        if isinstance(tod, SymInt):
            e.pm.setdefault("hms_memo", {})[tod.lin.key()] = (h, mi, sec, sub * unit_us)
            e.pm.setdefault("hms_known", {})[tod.lin.key()] = (tod, (h, mi, sec, sub * unit_us))
        return r

    @staticmethod
    def from_fields(year, month, day, hour=0, minute=0, second=0, microsecond=0):
        e = E.ENGINE
        # month must be concrete on the path
        if isinstance(month, SymInt):
            if e.branch(Or(month < 1, month > 12)):
                raise ValueError("month must be in 1..12")
            month = month.__index__()
        elif not 1 <= month <= 12:
            raise ValueError("month must be in 1..12")
        if isinstance(year, SymInt):
            if e.branch(Or(year < 1, year > 9999)):
                raise ValueError("year %r is out of range" % (year,))
        elif not 1 <= year <= 9999:
            raise ValueError("year %i is out of range" % year)
        bad = Or(day < 1, day > dim(year, month))
        if bad is True or (bad is not False and e.branch(bad)):
            raise ValueError("day is out of range for month")
        for v, hi, nm in ((hour, 23, "hour"), (minute, 59, "minute"), (second, 59, "second"), (microsecond, 999999, "microsecond")):
            b = Or(v < 0, v > hi)
            if b is True or (b is not False and e.branch(b)):
                raise ValueError("%s must be in 0..%d" % (nm, hi))
        N = day_number(year, month, day)
        tod = ((hour * 60 + minute) * 60 + second) * 10**6 + microsecond
        r = SymDT(N * DAY_US + tod)
        if isinstance(N, SymInt):
            c = Civil(year, month, day)
            e.pm.setdefault("civil_memo", {})[N.lin.key()] = c
            e.pm.setdefault("civil_days", {})[N.lin.key()] = (N, c)
            if isinstance(r.us, SymInt):
                e.pm.setdefault("split_memo", {})[r.us.lin.key()] = (N, tod)
                e.pm.setdefault("split_known", {})[r.us.lin.key()] = (r.us, N, tod)
        return r

    @staticmethod
    def from_split(N, tod, civil=None):
        """instant with KNOWN day number / microsecond of day (registered so that no divmod is needed later)"""
        r = SymDT(N * DAY_US + tod)
        e = E.ENGINE
        if e is not None and isinstance(r.us, SymInt):
            k = r.us.lin.key()
            e.pm.setdefault("split_memo", {}).setdefault(k, (N, tod))
            e.pm.setdefault("split_known", {}).setdefault(k, (r.us, N, tod))
            if civil is not None and isinstance(N, SymInt):
                e.pm.setdefault("civil_memo", {}).setdefault(N.lin.key(), civil)
                e.pm.setdefault("civil_days", {}).setdefault(N.lin.key(), (N, civil))
        return r

    # ---- decomposition
    def _split(self):
        """(day number, microsecond of day)"""
        if isinstance(self.us, int):
            return self.us // DAY_US, self.us % DAY_US
        e = cur()
        memo = e.pm.setdefault("split_memo", {})
        k = self.us.lin.key()
        if k in memo:
            return memo[k]
        # relative to a known split: carry / borrow on the time of day
        for k2, (us2, N2, tod2) in list(e.pm.setdefault("split_known", {}).items()):
            diff = self.us.lin.sub(us2.lin)
            if not diff.t and diff.c.denominator == 1 and abs(diff.c) <= 40 * DAY_US:
                c = int(diff.c)
                dd, rr = divmod(c, DAY_US)
                tod = tod2 + rr
                N = N2 + dd
                over = tod >= DAY_US
                if over is True or (over is not False and e.branch(over)):
                    tod = tod - DAY_US
                    N = N + 1
                memo[k] = (N, tod)
                e.pm["split_known"][k] = (self.us, N, tod)
                return memo[k]
        N = self.us // DAY_US
        tod = self.us % DAY_US
        memo[k] = (N, tod)
        e.pm["split_known"][k] = (self.us, N, tod)
        return memo[k]

    def _civil(self):
        N, _ = self._split()
        return civil_of_day(N)

    year = property(lambda s: s._civil().y)
    month = property(lambda s: s._civil().m)
    day = property(lambda s: s._civil().d)
    def _hms(self):
        """(hour, minute, second, microsecond) by a CHAIN of divmods (tod = secs*1e6 + us, secs = mins*60 + s,
        mins = h*60 + mi): recomposition is then pure linear substitution for the solver"""
        tod = self._split()[1]
        if isinstance(tod, int):
            secs, us = divmod(tod, 10**6)
            mins, sec = divmod(secs, 60)
            h, mi = divmod(mins, 60)
            return h, mi, sec, us
        e = cur()
        memo = e.pm.setdefault("hms_memo", {})
        known = e.pm.setdefault("hms_known", {})
        k = tod.lin.key()
        if k in memo:
            return memo[k]
        # relative to an already decomposed time of day: add the constant difference with carry forks
        for k2, (tod2, parts) in list(known.items()):
            diff = tod.lin.sub(tod2.lin)
            if not diff.t and diff.c.denominator == 1:
                c = int(diff.c)
                csec, dus = divmod(c, 10**6)
                cmin, ds = divmod(csec, 60)
                dh, dmi = divmod(cmin, 60)
                h, mi, sec, us = parts
                us = us + dus
                carry = 0
                if dus and _truth(us >= 10**6):
                    us, carry = us - 10**6, 1
                sec = sec + ds + carry
                carry = 0
                if (ds or dus) and _truth(sec >= 60):
                    sec, carry = sec - 60, 1
                mi = mi + dmi + carry
                carry = 0
                if (dmi or ds or dus) and _truth(mi >= 60):
                    mi, carry = mi - 60, 1
                h = h + dh + carry
                memo[k] = (h, mi, sec, us)
                known[k] = (tod, memo[k])
                return memo[k]
        secs, us = tod // 10**6, tod % 10**6
        mins, sec = secs // 60, secs % 60
        h, mi = mins // 60, mins % 60
        memo[k] = (h, mi, sec, us)
        known[k] = (tod, memo[k])
        return memo[k]

    hour = property(lambda s: s._hms()[0])
    minute = property(lambda s: s._hms()[1])
    second = property(lambda s: s._hms()[2])
    microsecond = property(lambda s: s._hms()[3])

    def isoweekday(self):
        N, _ = self._split()
        return (N + 3) % 7 + 1

    def weekday(self):
        N, _ = self._split()
        return (N + 3) % 7

    def replace(self, year=None, month=None, day=None, hour=None, minute=None, second=None, microsecond=None, tzinfo=True):
        c = self._civil()
        N, tod = self._split()
        if hour is None and minute is None and second is None and microsecond is None:
            y = c.y if year is None else year
            m = c.m if month is None else month
            d = c.d if day is None else day
            r = SymDT.from_fields(y, m, d)
            return SymDT(r.us + tod)
        return SymDT.from_fields(
            c.y if year is None else year, c.m if month is None else month, c.d if day is None else day,
            self.hour if hour is None else hour, self.minute if minute is None else minute, self.second if second is None else second, self.microsecond if microsecond is None else microsecond,
        )

    def date(self):
        N, _ = self._split()
        return SymDate(N)

    def time(self):
        return SymTime(self._split()[1])

    def __deepcopy__(self, memo):
        return self

    def __copy__(self):
        return self

    # ---- arithmetic
    def __add__(self, o):
        if isinstance(o, SymTD):
            return SymDT(self.us + o.us)
        if isinstance(o, _dt.timedelta):
            return SymDT(self.us + ((o.days * 86400 + o.seconds) * 10**6 + o.microseconds))
        return NotImplemented

    __radd__ = __add__

    def __sub__(self, o):
        if isinstance(o, SymTD):
            return SymDT(self.us - o.us)
        if isinstance(o, _dt.timedelta):
            return SymDT(self.us - ((o.days * 86400 + o.seconds) * 10**6 + o.microseconds))
        if isinstance(o, (SymDT, _dt.datetime)):
            return SymTD(self.us - SymDT.lift(o).us)
        return NotImplemented

    def __rsub__(self, o):
        if isinstance(o, _dt.datetime):
            return SymTD(SymDT.lift(o).us - self.us)
        return NotImplemented

    def _c(self, o, f):
        if isinstance(o, (SymDT, _dt.datetime)):
            return f(self.us, SymDT.lift(o).us)
        return NotImplemented

    def __lt__(self, o):
        return self._c(o, lambda a, b: a < b)

    def __le__(self, o):
        return self._c(o, lambda a, b: a <= b)

    def __gt__(self, o):
        return self._c(o, lambda a, b: a > b)

    def __ge__(self, o):
        return self._c(o, lambda a, b: a >= b)

    def __eq__(self, o):
        r = self._c(o, lambda a, b: a == b)
        return False if r is NotImplemented else r

    def __ne__(self, o):
        r = self._c(o, lambda a, b: a != b)
        return True if r is NotImplemented else r

    # ---- local time zone (the only OS dependency)
    tzinfo = None
    fold = 0

    def astimezone(self, tz=None):
        """naive value read as local time -> UTC (like mktime, fold=0) -> local wall clock of that instant; the result stands
        for the aware value (its tzinfo is dropped by replace(tzinfo=None); arithmetic on it is wall-clock arithmetic)"""
        if tz is not None:
            raise ModelGap("astimezone(tz) with an explicit zone")
        u = self.us - tz_offset_us(self.us, local=True)
        return SymDT(u + tz_offset_us(u, local=False))

    def utcoffset(self):
        return None

    def timestamp(self):
        off = tz_offset_us(self.us, local=True)
        u = self.us - off
        return SymReal(lin_of(u).scale(Fraction(1, 10**6))) if isinstance(u, SymNum) else u / 10**6

    def strftime(self, fmt):
        e = cur()
        tab = e.pm.setdefault("strf_memo", {})
        k = (lin_of(self.us).key(), fmt)
        if k not in tab:
            tab[k] = "@T%d@" % len(tab)
            e.pm.setdefault("strf_holes", {})[tab[k]] = (self, fmt)
        return tab[k]

    def __repr__(self):
        return "SymDT(%r us)" % (self.us,)


def tz_offset_us(us, local):
    """offset of the modelled local zone at a naive local instant (local=True) or a UTC instant (local=False)"""
    e = cur()
    tz = getattr(e, "tz", "utc")
    if tz == "utc":
        return 0
    if isinstance(tz, (tuple, list)) and tz[0] == "real":
        # one real transition of a named zone: offsets and instant concrete, the queried instants symbolic
        _, tr_us, o1_us, o2_us = tz
        if not local:
            before = us < tr_us
            return o1_us if (before if isinstance(before, bool) else e.branch(before)) else o2_us
        # naive local -> UTC like mktime with fold=0: the first valid reading; a non-existent time (gap) keeps the old offset
        b1 = (us - o1_us) < tr_us
        if b1 if isinstance(b1, bool) else e.branch(b1):
            return o1_us
        b2 = (us - o2_us) >= tr_us
        if b2 if isinstance(b2, bool) else e.branch(b2):
            return o2_us
        return o1_us
    st = e.pm.get("tz_state")
    if st is None:
        q = 15 * 60 * 10**6
        o1 = e.integer("tz_off1_quarters", -48, 56)
        st = dict(o1=o1 * q)
        if tz == "dst":
            o2 = e.integer("tz_off2_quarters", -48, 56)
            tr = e.integer("tz_transition_s", -2208988800, 7289654400)
            e.assume(Or(o2 - o1 == 4, o1 - o2 == 4, o2 - o1 == 2, o1 - o2 == 2))
            st.update(o2=o2 * q, tr=tr * 10**6)
        e.pm["tz_state"] = st
    if tz == "const":
        return st["o1"]
    # one transition at UTC instant tr: offset o1 before, o2 after (gap/fold resolved like mktime with fold=0)
    if not local:
        before = us < st["tr"]
        return st["o1"] if (before if isinstance(before, bool) else e.branch(before)) else st["o2"]
    b1 = (us - st["o1"]) < st["tr"]
    if b1 if isinstance(b1, bool) else e.branch(b1):
        return st["o1"]
    b2 = (us - st["o2"]) >= st["tr"]
    if b2 if isinstance(b2, bool) else e.branch(b2):
        return st["o2"]
    return st["o1"]


def fromtimestamp(s):
    us = to_us(s, 10**6)
    off = tz_offset_us(us, local=False)
    return SymDT(us + off)


class SymDate(object):
    __symbolic__ = True
    __hash__ = None
    kind = "date"

    def __init__(self, N):
        self.N = N

    @staticmethod
    def fresh(e, name, ylo=1900, yhi=2200):
        lo = (_dt.date(ylo, 1, 1) - _dt.date(1970, 1, 1)).days
        hi = (_dt.date(yhi, 12, 31) - _dt.date(1970, 1, 1)).days
        return SymDate(e.integer(name, lo, hi))

    year = property(lambda s: civil_of_day(s.N).y)
    month = property(lambda s: civil_of_day(s.N).m)
    day = property(lambda s: civil_of_day(s.N).d)

    def __repr__(self):
        return "SymDate(%r)" % (self.N,)


class SymTime(object):
    __symbolic__ = True
    __hash__ = None
    kind = "time"

    def __init__(self, us):
        self.us = us

    @staticmethod
    def fresh(e, name, unit_us=1000):
        t = e.integer(name, 0, DAY_US // unit_us - 1)
        return SymTime(t * unit_us)

    def __repr__(self):
        return "SymTime(%r)" % (self.us,)


# ----------------------------------------------------------------------------------------
# factories injected in place of the names the modules imported
# ----------------------------------------------------------------------------------------
class _Meta(type):
    def __instancecheck__(cls, x):
        return cls._check(x)


class datetime_factory(metaclass=_Meta):
    real = _dt.datetime
    min = _dt.datetime.min
    max = _dt.datetime.max

    @staticmethod
    def _check(x):
        return isinstance(x, (SymDT, _dt.datetime))

    def __new__(cls, year, month=None, day=None, hour=0, minute=0, second=0, microsecond=0, tzinfo=None):
        args = (year, month, day, hour, minute, second, microsecond)
        if not any(isinstance(a, SymNum) for a in args) and not _zone_modelled():
            return _dt.datetime(year, month, day, hour, minute, second, microsecond)
        # (under a modelled local zone even concrete instants are model objects, so that timestamp() consults the model)
        return SymDT.from_fields(*args)

    @staticmethod
    def fromtimestamp(s, tz=None):
        if isinstance(s, (SymNum, SymFrac)) or getattr(cur_or_none(), "tz", "utc") != "utc":
            return fromtimestamp(s)
        return _dt.datetime.fromtimestamp(s)

    @staticmethod
    def combine(d, t):
        if isinstance(d, SymDT):
            d = d.date()
        if isinstance(d, SymDate) or isinstance(t, SymTime):
            N = d.N if isinstance(d, SymDate) else (d - _dt.date(1970, 1, 1)).days
            if isinstance(t, SymTime):
                tod = t.us
            else:
                tod = ((t.hour * 60 + t.minute) * 60 + t.second) * 10**6 + t.microsecond
            return SymDT(N * DAY_US + tod)
        return _dt.datetime.combine(d, t)

    @staticmethod
    def now(tz=None):
        return _dt.datetime.now()

    @staticmethod
    def today():
        return _dt.datetime.today()


class date_factory(metaclass=_Meta):
    real = _dt.date

    @staticmethod
    def _check(x):
        return isinstance(x, (SymDT, SymDate, _dt.date))

    def __new__(cls, y, m, d):
        if not any(isinstance(a, SymNum) for a in (y, m, d)):
            return _dt.date(y, m, d)
        return SymDT.from_fields(y, m, d).date()

    @staticmethod
    def today():
        h = getattr(cur_or_none(), "today_hook", None)
        if h is not None:
            return h()
        return _dt.date.today()


class time_factory(metaclass=_Meta):
    real = _dt.time

    @staticmethod
    def _check(x):
        return isinstance(x, (SymTime, _dt.time))

    def __new__(cls, *a, **k):
        return _dt.time(*a, **k)


class timedelta_factory(metaclass=_Meta):
    real = _dt.timedelta

    @staticmethod
    def _check(x):
        return isinstance(x, (SymTD, _dt.timedelta))

    def __new__(cls, *a, **k):
        return timedelta(*a, **k)


class _DTModule(object):
    """stands in for `import datetime`"""

    datetime = datetime_factory
    date = date_factory
    time = time_factory
    timedelta = timedelta_factory
    MINYEAR = _dt.MINYEAR
    MAXYEAR = _dt.MAXYEAR


    def __getattr__(self, name):
        return getattr(_dt, name)


SHIM_MODULE = _DTModule()


def cur_or_none():
    return E.ENGINE


def sym_isinstance(x, t):
    if isinstance(t, tuple):
        rs = [sym_isinstance(x, u) for u in t]
        if any(r is True for r in rs):
            return True
        if all(r is False for r in rs):
            return False
        return None
    if t in (datetime_factory, date_factory, time_factory, timedelta_factory):
        return t._check(x)
    if isinstance(x, (SymDT, SymDate, SymTime, SymTD)):
        if t is _dt.datetime:
            return isinstance(x, SymDT)
        if t is _dt.date:
            return isinstance(x, (SymDT, SymDate))
        if t is _dt.time:
            return isinstance(x, SymTime)
        if t is _dt.timedelta:
            return isinstance(x, SymTD)
        return False
    return None


def install(module):
    g = module.__dict__
    if g.get("datetime") is _dt.datetime:
        g["datetime"] = datetime_factory
    elif g.get("datetime") is _dt:
        g["datetime"] = SHIM_MODULE
    if g.get("timedelta") is _dt.timedelta:
        g["timedelta"] = timedelta_factory
    if g.get("date") is _dt.date:
        g["date"] = date_factory
