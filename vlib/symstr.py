"""Symbolic strings: concrete length, each character a concrete or symbolic code point (SymInt in [0, 0x10FFFF])."""
import builtins

from . import engine as E
from .engine import SymInt, SymNum, ModelGap, And, Or, Not, cur


def _cp_of(x):
    """list of code points of a str / SymStr"""
    if isinstance(x, SymStr):
        return list(x.cps)
    if isinstance(x, str):
        return [builtins.ord(c) for c in x]
    raise TypeError("can only concatenate str to str")


def _conc(c):
    return isinstance(c, int)


class SymStr(object):
    __symbolic__ = True
    __hash__ = None

    def __init__(self, cps):
        self.cps = list(cps)

    @staticmethod
    def lift(s):
        return s if isinstance(s, SymStr) else SymStr(_cp_of(s))

    @staticmethod
    def fresh(e, name, n, lo=0, hi=0x10FFFF, exclude_surrogates=True):
        cps = []
        for i in range(n):
            c = e.integer("%s_%d" % (name, i), lo, hi)
            if exclude_surrogates and lo <= 0xDFFF and hi >= 0xD800:
                e.assume(Or(c < 0xD800, c > 0xDFFF))
            cps.append(c)
        return SymStr(cps)

    def simplify(self):
        """plain str when every character is concrete"""
        if all(_conc(c) or (isinstance(c, SymInt) and not c.lin.t) for c in self.cps):
            return "".join(builtins.chr(c if _conc(c) else int(c.lin.c)) for c in self.cps)
        return self

    # ---- sequence protocol
    def __len__(self):
        return len(self.cps)

    def __iter__(self):
        for c in self.cps:
            yield SymStr([c]).simplify()

    def __getitem__(self, k):
        if isinstance(k, slice):
            return SymStr(self.cps[k]).simplify()
        if isinstance(k, SymInt):
            k = k.__index__()
        return SymStr([self.cps[k]]).simplify()

    def __add__(self, o):
        if not isinstance(o, (str, SymStr)):
            return NotImplemented
        return SymStr(self.cps + _cp_of(o)).simplify()

    def __radd__(self, o):
        if not isinstance(o, (str, SymStr)):
            return NotImplemented
        return SymStr(_cp_of(o) + self.cps).simplify()

    def __mul__(self, k):
        return SymStr(self.cps * k).simplify()

    # ---- comparisons
    def __eq__(self, o):
        if not isinstance(o, (str, SymStr)):
            return False
        b = _cp_of(o)
        if len(b) != len(self.cps):
            return False
        return And(*[(x == y) if (isinstance(x, SymInt) or isinstance(y, SymInt)) else (x == y) for x, y in zip(self.cps, b)])

    def __ne__(self, o):
        return Not(self.__eq__(o))

    def _lex(self, o, strict):
        b = _cp_of(o)
        a = self.cps
        # a < b lexicographically
        alts = []
        pre = []
        for i in range(min(len(a), len(b))):
            alts.append(And(*(pre + [a[i] < b[i]])))
            pre.append(a[i] == b[i])
        if len(a) < len(b):
            alts.append(And(*pre))
        elif len(a) == len(b) and not strict:
            alts.append(And(*pre))
        return Or(*alts)

    def __lt__(self, o):
        return self._lex(o, True)

    def __le__(self, o):
        return self._lex(o, False)

    def __gt__(self, o):
        return SymStr.lift(o)._lex(self, True)

    def __ge__(self, o):
        return SymStr.lift(o)._lex(self, False)

    def __bool__(self):
        return len(self.cps) > 0

    def __contains__(self, o):
        raise ModelGap("substring test on a symbolic string")

    # ---- str methods used by labella
    def upper(self):
        out = []
        for c in self.cps:
            if _conc(c):
                u = builtins.chr(c).upper()
                if len(u) != 1:
                    raise ModelGap("upper() changing length")
                out.append(builtins.ord(u))
            else:
                # ASCII letters only are modelled; other characters must be proven outside a-z and caseless is not claimed
                if cur().branch(And(c >= 97, c <= 122)):
                    out.append(c - 32)
                elif cur().branch(c < 128):
                    out.append(c)
                else:
                    raise ModelGap("upper() of a non-ASCII symbolic character")
        return SymStr(out).simplify()

    def lower(self):
        out = []
        for c in self.cps:
            if _conc(c):
                out.append(builtins.ord(builtins.chr(c).lower()))
            elif cur().branch(And(c >= 65, c <= 90)):
                out.append(c + 32)
            elif cur().branch(c < 128):
                out.append(c)
            else:
                raise ModelGap("lower() of a non-ASCII symbolic character")
        return SymStr(out).simplify()

    def startswith(self, p):
        p = _cp_of(p)
        if len(p) > len(self.cps):
            return False
        r = And(*[a == b for a, b in zip(self.cps, p)])
        return r if isinstance(r, bool) else bool(r)

    def split(self, *a):
        raise ModelGap("split of a symbolic string")

    def zfill(self, width):
        n = len(self.cps)
        if n >= width:
            return self
        # (a leading sign is not handled: hex digit strings only)
        return SymStr([48] * (width - n) + self.cps)

    def rjust(self, width, fill=" "):
        n = len(self.cps)
        return self if n >= width else SymStr([builtins.ord(fill)] * (width - n) + self.cps)

    def __sym_int__(self, base=10):
        """int(s, base) for base 16/10 on symbolic digits: forks on the class of every character"""
        if base not in (10, 16):
            raise ModelGap("int(s, %r)" % (base,))
        if not self.cps:
            raise ValueError("invalid literal for int() with base %d: ''" % base)
        val = 0
        e = cur()
        for c in self.cps:
            if _conc(c):
                d = builtins.int(builtins.chr(c), base)
            elif e.branch(And(c >= 48, c <= 57)):
                d = c - 48
            elif base == 16 and e.branch(And(c >= 97, c <= 102)):
                d = c - 87
            elif base == 16 and e.branch(And(c >= 65, c <= 70)):
                d = c - 55
            else:
                raise ValueError("invalid literal for int() with base %d" % base)
            val = val * base + d
        return val

    def __sym_format__(self, spec):
        if spec in ("%s", "s", ""):
            return self
        raise ModelGap("format %r of a symbolic string" % spec)

    def __format__(self, spec):
        raise ModelGap("str.format of a symbolic string")

    def __str__(self):
        raise ModelGap("str() of a symbolic string (would concretise)")

    def __repr__(self):
        return "SymStr(%r)" % (self.cps,)


def shim_ord(c):
    if isinstance(c, SymStr):
        if len(c.cps) != 1:
            raise TypeError("ord() expected a character, but string of length %d found" % len(c.cps))
        return c.cps[0]
    return builtins.ord(c)


def shim_chr(i):
    if isinstance(i, SymInt):
        if not i.lin.t:
            return builtins.chr(int(i.lin.c))
        if cur().branch(Or(i < 0, i > 0x10FFFF)):
            raise ValueError("chr() arg not in range(0x110000)")
        return SymStr([i])
    return builtins.chr(i)


def shim_tuple(x=()):
    if isinstance(x, SymStr):
        return builtins.tuple(iter(x))
    return builtins.tuple(x)


def shim_list(x=()):
    if isinstance(x, SymStr):
        return builtins.list(iter(x))
    return builtins.list(x)


def sym_join(sep, items):
    items = builtins.list(items)
    if isinstance(sep, str) and all(isinstance(i, str) for i in items):
        return sep.join(items)
    out = SymStr([])
    for k, it in enumerate(items):
        if not isinstance(it, (str, SymStr)):
            raise TypeError("sequence item %d: expected str instance" % k)
        if k:
            out = SymStr.lift(out + sep)
        out = SymStr.lift(out + it)
    return SymStr.lift(out).simplify()


def install(module):
    g = module.__dict__
    g["ord"] = shim_ord
    g["chr"] = shim_chr
    g["tuple"] = shim_tuple
    g["list"] = shim_list


def hex_digits(x, upper):
    """'%X' / '%x' of a non-negative symbolic int: forks on the number of digits and on letter/digit per position"""
    e = cur()
    if e.branch(x < 0):
        raise ModelGap("hex formatting of a negative symbolic int")
    nd = None
    for d in range(1, 17):
        if e.branch(x < 16**d):
            nd = d
            break
    if nd is None:
        raise ModelGap("hex formatting of more than 16 digits")
    out = []
    rest = x
    for _ in range(nd):
        q, r = rest // 16, rest % 16
        if e.branch(r < 10):
            out.append(r + 48)
        else:
            out.append(r + (55 if upper else 87))
        rest = q
    return SymStr(list(reversed(out))).simplify()
