"""symbolic strings (filled in by the text harnesses)"""


def install(module):
    pass
