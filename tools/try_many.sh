#!/bin/sh
# tools/try_many.sh <seed-id>...: run each seed's own property check (quick) on a scratch worktree; one line per seed
for sid in "$@"; do
  P=${sid%-*}
  s=$(date +%s)
  out=$(timeout 1500 /verif/tools/try_seed.sh $sid $P 2>&1)
  e=$(date +%s)
  rc=$(echo "$out" | grep -o "exit=[0-9]*" | tail -1)
  det=$(echo "$out" | grep -m1 "detail:" | cut -c1-220)
  echo "$sid $rc $((e-s))s | $det"
done
