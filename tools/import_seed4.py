#!/usr/bin/env python3
"""tools/import_seed4.py <Cxx> <letter> <summary-file> : confirm a round-4 seeded change in its scratch worktree /tmp/wt_<Cxx>
(existing tests pass with it, demo fails with it and passes without), then copy it to seeded/<Cxx>-<letter>/ and remove the worktree."""
import json, os, shutil, subprocess, sys

ROOT = os.path.dirname(os.path.dirname(os.path.abspath(__file__)))


def sh(cmd):
    return subprocess.run(cmd, shell=True, capture_output=True, text=True)


def main():
    p, x, sumfile = sys.argv[1:4]
    wt = "/tmp/wt_%s" % p
    patch = open(wt + "/patch.diff").read()
    demo = open(wt + "/demo.py").read()
    sh("cd %s && git checkout -q -- labella" % wt)
    clean = sh("cd %s && PYTHONPATH=%s /venv/bin/python demo.py" % (wt, wt)).returncode
    assert sh("cd %s && git apply patch.diff" % wt).returncode == 0, "patch does not apply"
    tests = sh("cd %s && /venv/bin/python -m pytest -q -p no:cacheprovider tests 2>&1 | tail -1" % wt).stdout.strip()
    mut = sh("cd %s && PYTHONPATH=%s /venv/bin/python demo.py" % (wt, wt)).returncode
    sh("cd %s && git checkout -q -- labella" % wt)
    print(p, x, "clean_demo_exit", clean, "mutant_demo_exit", mut, "tests", tests)
    if not (clean == 0 and mut != 0 and "passed" in tests and "failed" not in tests):
        print("NOT CONFIRMED"); sys.exit(1)
    d = os.path.join(ROOT, "seeded", "%s-%s" % (p, x))
    os.makedirs(d, exist_ok=True)
    open(d + "/patch.diff", "w").write(patch)
    open(d + "/demo.py", "w").write(demo)
    s = json.load(open(sumfile))
    meta = dict(id="%s-%s" % (p, x), property=p, summary=s["summary"], needs=s["needs"], author="independent sub-agent given only the property text and a scratch worktree (round 4)",
                confirmed=dict(by="tools/import_seed4.py in the scratch worktree of /repo@HEAD", existing_tests=tests, demo_exit_without_change=clean, demo_exit_with_change=mut))
    json.dump(meta, open(d + "/meta.json", "w"), indent=1)
    sh("git -C /repo worktree remove --force %s" % wt)


main()
