#!/usr/bin/env python3
"""Fill the table in DESIGN.md section 8.5 from seeded/*/meta.json (between the SEED_MATRIX markers)."""
import json, os, re
ROOT = os.path.dirname(os.path.dirname(os.path.abspath(__file__)))
rows = []
for sid in sorted(os.listdir(os.path.join(ROOT, "seeded"))):
    m = json.load(open(os.path.join(ROOT, "seeded", sid, "meta.json")))
    det = (m.get("detection") or {}).get("results") or {}
    own = det.get(m["property"])
    caught = [c for c, r in det.items() if r.get("detected")]
    status = "not run"
    if det:
        status = "caught by " + ", ".join(caught) if caught else ("inconclusive" if any(r.get("exit") == 2 for r in det.values()) else "MISSED")
    what = (m.get("summary") or "").strip().replace("\n", " ").replace("|", "/")
    rows.append("| %s | %s | %s |" % (sid, status, what[:150] + ("..." if len(what) > 150 else "")))
table = "| seed | quick-tier result | change |\n|---|---|---|\n" + "\n".join(rows)
p = os.path.join(ROOT, "DESIGN.md")
s = open(p).read()
if "SEED_MATRIX_PLACEHOLDER" in s:
    s = s.replace("SEED_MATRIX_PLACEHOLDER", "<!-- SEED_MATRIX_BEGIN -->\n" + table + "\n<!-- SEED_MATRIX_END -->")
else:
    s = re.sub(r"<!-- SEED_MATRIX_BEGIN -->.*?<!-- SEED_MATRIX_END -->", "<!-- SEED_MATRIX_BEGIN -->\n" + table.replace("\\", "\\\\") + "\n<!-- SEED_MATRIX_END -->", s, flags=re.S)
open(p, "w").write(s)
n = len(rows); c = sum(1 for r in rows if "caught" in r)
print("%d seeds, %d caught" % (n, c))
