#!/usr/bin/env python3
"""(Re)generate DESIGN.md section 8.6: per property, what the registered check covers (from the check modules)."""
import importlib, os, re, sys, json
ROOT = os.path.dirname(os.path.dirname(os.path.abspath(__file__)))
sys.path.insert(0, ROOT); sys.path.insert(0, os.path.join(ROOT, ".deps"))
out = ["### 8.6 Per property: what the registered check decides (generated from checks/Cxx.py)\n"]
for i in range(1, 21):
    pid = "C%02d" % i
    H = importlib.import_module("checks." + pid)
    q, t = H.configs("quick"), H.configs("thorough")
    out.append("**%s** - %d quick / %d thorough configurations.\n" % (pid, len(q), len(t)))
    out.append(getattr(H, "EXPLANATION", "").strip() + "\n")
    b = getattr(H, "BOUNDS", {})
    out.append("*Bounds (quick):* " + json.dumps(b.get("quick", b), ensure_ascii=False) + "\n")
    out.append("*Bounds (thorough):* " + json.dumps(b.get("thorough", {}), ensure_ascii=False) + "\n")
    out.append("*Outside the claim:* " + "; ".join(getattr(H, "OUTSIDE", [])) + "\n")
    out.append("*Assumptions / stubs:* " + "; ".join(getattr(H, "ASSUMPTIONS", [])) + "\n")
txt = "\n".join(out)
p = os.path.join(ROOT, "DESIGN.md")
s = open(p).read()
if "<!-- PER_PROPERTY_BEGIN -->" in s:
    s = re.sub(r"<!-- PER_PROPERTY_BEGIN -->.*?<!-- PER_PROPERTY_END -->", lambda m: "<!-- PER_PROPERTY_BEGIN -->\n" + txt + "\n<!-- PER_PROPERTY_END -->", s, flags=re.S)
else:
    s += "\n<!-- PER_PROPERTY_BEGIN -->\n" + txt + "\n<!-- PER_PROPERTY_END -->\n"
open(p, "w").write(s)
print("written", len(txt))
