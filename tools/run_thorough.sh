#!/bin/sh
# run thorough tiers sequentially with a wall-clock cap per check (default 1500 s); one line per check
CAP=${CAP:-1500}
cd /verif
for p in "$@"; do
  s=$(date +%s); out=$(timeout $CAP ./vcheck $p --tier thorough 2>&1 | tail -4 | tr '\n' ' '); rc=$?; e=$(date +%s)
  echo "$p rc=$rc $((e-s))s | $(echo $out | cut -c1-400)"
done
