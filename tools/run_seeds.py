#!/usr/bin/env python3
"""Run the registered quick check(s) against every seeded change, applied to /repo ITSELF (git apply) and undone straight
afterwards (git checkout -- .), and record the outcome in seeded/<id>/meta.json.  Usage: tools/run_seeds.py [seed-id ...]"""
import json, os, subprocess, sys, time

ROOT = os.path.dirname(os.path.dirname(os.path.abspath(__file__)))
# which checks are expected to see a seed: its own property first, then others that share the mechanism
ALSO = {"C08-b": ["C01"], "C11-a": ["C16"], "C07-d": ["C10"], "C19-d": ["C07"], "C02-d": ["C03"], "C16-a": ["C14"], "C08-e": ["C10"], "C09-f": ["C19"]}


def sh(cmd, **kw):
    return subprocess.run(cmd, shell=True, capture_output=True, text=True, **kw)


def main():
    ids = sys.argv[1:] or sorted(os.listdir(os.path.join(ROOT, "seeded")))
    assert sh("git -C /repo status --porcelain").stdout.strip() == "", "/repo not clean"
    for sid in ids:
        d = os.path.join(ROOT, "seeded", sid)
        meta = json.load(open(os.path.join(d, "meta.json")))
        prop = meta["property"]
        det = {}
        r = sh("git -C /repo apply %s/patch.diff" % d)
        if r.returncode:
            print(sid, "PATCH DOES NOT APPLY", r.stderr[:200]); continue
        try:
            for chk in [prop] + ALSO.get(sid, []):
                t0 = time.time()
                r = sh("cd %s && nice -n 15 ./vcheck %s --tier quick --no-evidence" % (ROOT, chk), timeout=3000)
                lines = r.stdout.strip().splitlines()
                viol = [l for l in lines if l.startswith("VIOLATION")]
                detail = [l.strip() for l in lines if l.strip().startswith("detail:")]
                det[chk] = dict(exit=r.returncode, detected=(r.returncode == 1 and bool(viol)), seconds=round(time.time() - t0), first_detail=(detail[0][:300] if detail else None), summary=(lines[0][:200] if lines else None))
                print(sid, chk, "exit", r.returncode, "detected" if det[chk]["detected"] else "MISSED", round(time.time() - t0), "s", flush=True)
        finally:
            sh("git -C /repo checkout -- .")
        meta["detection"] = dict(how="patch applied to /repo (git apply), ./vcheck <id> --tier quick, then git checkout -- .", repo_head=sh("git -C /repo rev-parse --short HEAD").stdout.strip(), verif_head=sh("git -C %s rev-parse --short HEAD" % ROOT).stdout.strip(), results=det)
        json.dump(meta, open(os.path.join(d, "meta.json"), "w"), indent=1)
    assert sh("git -C /repo status --porcelain").stdout.strip() == "", "/repo left dirty"


if __name__ == "__main__":
    main()
