#!/bin/sh
# tools/confirm_seed2.sh <Cxx> <c|d>: confirm a round-2 seeded change in its scratch worktree
P=$1; X=$2; WT=/tmp/wt/$P; S=${BASE:-/tmp/seedout2}/$P/$X
cd $WT || exit 9
git checkout -q -- . ; git clean -fdq
PYTHONPATH=$WT timeout 300 /venv/bin/python $S/demo.py >/dev/null 2>&1; clean=$?
git apply --check $S/patch.diff || { echo "$P/$X patch does not apply"; exit 1; }
git apply $S/patch.diff
t=$(timeout 600 /venv/bin/python -m pytest -q -p no:cacheprovider 2>&1 | tail -1)
PYTHONPATH=$WT timeout 300 /venv/bin/python $S/demo.py >/dev/null 2>&1; mut=$?
git checkout -q -- . ; git clean -fdq
echo "$P/$X clean_demo_exit=$clean mutant_demo_exit=$mut tests='$t'"
