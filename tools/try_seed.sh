#!/bin/sh
# tools/try_seed.sh <seed-id> <check-id> [runner args]: run a check against a seeded change applied in a scratch worktree
# (development aid; the recorded detection runs apply the patch to /repo itself, see tools/run_seeds.sh)
SID=$1; CHK=$2; shift 2
P=${SID%-*}; WT=/tmp/wtv/$P
[ -d $WT ] || git -C /repo worktree add -q --detach $WT HEAD
git -C $WT checkout -q -- . && git -C $WT apply /verif/seeded/$SID/patch.diff || exit 9
cd /verif && VERIF_REPO=$WT ./vcheck $CHK --no-evidence "$@"; rc=$?
git -C $WT checkout -q -- .
echo "seed=$SID check=$CHK exit=$rc"
