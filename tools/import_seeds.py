#!/usr/bin/env python3
"""copy confirmed seeded changes from /tmp/seedout into /verif/seeded/<id>/ (patch.diff, demo.py, meta.json)"""
import json, os, re, shutil, sys
log = {}
SRC = {}
for base in ("/tmp/seedout", "/tmp/seedout2", "/tmp/seedout3"):
    if not os.path.exists(base + "/confirm.log"):
        continue
    for line in open(base + "/confirm.log"):
        m = re.match(r"(C\d\d)/([abcdef]) clean_demo_exit=(\d+) mutant_demo_exit=(\d+) tests='(.*)'", line.strip())
        if m:
            log[(m.group(1), m.group(2))] = (int(m.group(3)), int(m.group(4)), m.group(5))
            SRC[(m.group(1), m.group(2))] = base
for (p, x), (c, mu, t) in sorted(log.items()):
    if c != 0 or mu == 0 or "109 passed" not in t:
        print("skip", p, x); continue
    src = "%s/%s/%s" % (SRC[(p, x)], p, x); dst = "/verif/seeded/%s-%s" % (p, x)
    os.makedirs(dst, exist_ok=True)
    shutil.copy(src + "/patch.diff", dst + "/patch.diff"); shutil.copy(src + "/demo.py", dst + "/demo.py")
    try: am = json.load(open(src + "/meta.json"))
    except Exception: am = {}
    old = {}
    if os.path.exists(dst + "/meta.json"):
        old = json.load(open(dst + "/meta.json"))
    meta = dict(id="%s-%s" % (p, x), property=p, summary=am.get("summary"), needs=am.get("needs"), author="independent sub-agent given only the property text and a scratch worktree",
                confirmed=dict(by="tools/confirm_seed.sh in a scratch worktree of /repo@HEAD", existing_tests=t, demo_exit_without_change=c, demo_exit_with_change=mu),
                detection=old.get("detection", {}))
    json.dump(meta, open(dst + "/meta.json", "w"), indent=1)
print(len(os.listdir("/verif/seeded")), "seeded changes")
