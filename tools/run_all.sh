#!/bin/sh
# run every registered quick (or $1=thorough) check once, sequentially; prints one line per check
TIER=${1:-quick}
cd /verif
for p in C01 C02 C03 C04 C05 C06 C07 C08 C09 C10 C11 C12 C13 C14 C15 C16 C17 C18 C19 C20; do
  s=$(date +%s); out=$(./vcheck $p --tier $TIER 2>&1 | tail -3 | tr '\n' ' '); rc=$?; e=$(date +%s)
  echo "$p exit=$rc $((e-s))s | $(echo $out | cut -c1-260)"
done
