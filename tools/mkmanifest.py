#!/usr/bin/env python3
"""Regenerate MANIFEST.json from the check modules present under checks/ (run from /verif)."""
import importlib
import json
import os
import sys

ROOT = os.path.dirname(os.path.dirname(os.path.abspath(__file__)))
sys.path.insert(0, ROOT)
sys.path.insert(0, os.path.join(ROOT, ".deps"))
PROPS = [json.loads(l) for l in open(os.path.join(ROOT, "properties.jsonl"))]
NA = json.load(open(os.path.join(ROOT, "tools", "not_applicable.json")))
checks = []
na = []
for p in PROPS:
    pid = p["id"]
    if pid in NA:
        na.append(dict(property_id=pid, reason=NA[pid]))
        continue
    if not os.path.exists(os.path.join(ROOT, "checks", pid + ".py")):
        na.append(dict(property_id=pid, reason="no check registered yet in this round (harness under construction; see DESIGN.md section 3)"))
        continue
    H = importlib.import_module("checks." + pid)
    checks.append(
        dict(
            property_id=pid,
            quick_cmd="./vcheck %s --tier quick" % pid,
            thorough_cmd="./vcheck %s --tier thorough" % pid,
            evidence_file="evidence/%s.json" % pid,
            replay_cmd_template="./vcheck replay {path}",
            engine=getattr(H, "ENGINE_NAME", "pathsym"),
            level_claimed=dict(
                category="other",
                text=getattr(H, "LEVEL_TEXT", "Bounded symbolic execution of the real Python functions: every explored path's property query is decided by z3 for ALL values in the stated box (unsat = holds on the whole region); counter-examples are replayed on the uninstrumented code before being reported. Bounded (sizes, value boxes, unwinding) - not a proof."),
                design_ref="DESIGN.md section 3, %s" % pid,
            ),
            level_note=getattr(H, "LEVEL_NOTE", "; ".join(getattr(H, "ASSUMPTIONS", [])) + ". Outside the claim: " + "; ".join(getattr(H, "OUTSIDE", []))),
            technique=getattr(H, "TECHNIQUE", "symbolic execution of the real code (path-wise, re-execution DFS) + z3 SMT queries per path; replay of models on the real code"),
        )
    )
m = dict(
    version=1,
    setup_cmd="./vcheck setup",
    hooks=dict(
        guard="LABELLA_PY_VERIF",
        enable="no source hooks: instrumentation is applied at import time by /verif/vlib/instr.py (AST pass over /repo's working tree); LABELLA_PY_VERIF=1 is exported by ./vcheck only for the interface",
        baseline_off_cmd="cd /repo && env -u LABELLA_PY_VERIF /venv/bin/python -m pytest -ra -q -p no:cacheprovider --timeout=900 --continue-on-collection-errors",
        source_commits=[],
        add_only=True,
    ),
    engines=[
        dict(name="pathsym", path="vlib/engine.py", serves_properties=[c["property_id"] for c in checks if c["engine"] == "pathsym"], kind_free_text="dynamic symbolic execution of the real labella modules (AST-instrumented import, z3-backed numeric/string/datetime proxies), z3 5.1.0 decides every branch and assertion"),
        dict(name="crosshair", path="checks/C20.py", serves_properties=["C20"], kind_free_text="CrossHair 0.0.110 (symbolic execution of Python with z3) for utils.int2name"),
        dict(name="fp-lemma", path="vlib/fplemma.py", serves_properties=["C12"], kind_free_text="QF_FP translation of scale.py's arithmetic lambdas from the AST, decided by z3"),
    ],
    checks=checks,
    not_applicable=na,
    notes="Exit codes of every check: 0 holds on everything explored, 1 replay-confirmed VIOLATION, 2 inconclusive (solver unknown / bound exceeded / model gap / non-reproducing counter-example). Known findings: known_findings.json.",
)
json.dump(m, open(os.path.join(ROOT, "MANIFEST.json"), "w"), indent=1)
print("checks:", [c["property_id"] for c in checks], "n/a:", [n["property_id"] for n in na])
